"""C11 — generator of synthetic wikis / metabooks and the property's own oracle (monitor), pure Python.

The oracle applies the text of property C11 to what was read back from the archive; it does not use the
Coq model.  It never demands more than the property states: extra images / pages in the archive are not
reported, a listed page that does not exist must be absent, a greenlet that dies on the request for a page
or revision that does not exist counts as "skipped" (the rest must be unaffected)."""
import hashlib
import re

from vt.harness import c11_wiki

BOT_RE = re.compile(r"bot$", re.IGNORECASE)
USERS = ["Alice", "Bob", "Carl", "Dana", "Eve", "Fay", "Gil", "FooBot", "Xbot", "ROBOT", "Botany", "Zoë"]


# ----------------------------------------------------------------------------- generator
BULK_USERS = ["User %02d" % i for i in range(30)] + ["Tidybot", "CropBot", "Editor Ω", "Anne-Marie", "O'Neil"]


def gen_bulk_case(rng, cid, tier="quick"):
    """The SIZE dimension of the quantifier: a collection of ordinary size (8..45 articles quick, ..70 thorough, a
    pool of 2..14 images shared between them, directly and through gallery templates) with up to 20 contributors
    per page, fetched with SMALL result limits (rvlimit / api_result_limit in 1..5).  No single query is long
    (a page's contributors / a block's image list need a handful of continuation rounds), the whole fetch needs
    dozens to many hundreds of them, all on the same API client(s): whatever the client accumulates ACROSS queries
    (counters, caches, the last continuation value, merged results) has run through hundreds of queries when the
    later ones are made.  The collection's size is drawn log-uniformly so that every order of magnitude of the total
    is met.  The metabook lists most articles in shuffled order (some through a redirect, some pinned, one or two
    missing titles) so that contributor look-ups, image lists and description pages come late in the fetch too."""
    top = 45 if tier == "quick" else 70
    n_art = min(top, int(round(8 * (top / 8.0) ** rng.random())))
    n_img = rng.randint(2, 14)
    n_tpl = rng.randint(0, 3)
    pool = BULK_USERS + USERS
    u_lo = rng.randint(0, 6)
    u_hi = rng.randint(max(4, u_lo), 20)
    nrev = [rng.choice([1, 100, 5000])]

    def rid():
        nrev[0] += rng.randint(1, 3)
        return nrev[0]

    def users():
        return rng.sample(pool, rng.randint(u_lo, u_hi)), rng.choice([0, 0, 1, 3, 12])

    img_names = ["Pic %d.png" % i if i % 4 else "Píc %d.svg" % i for i in range(n_img)]
    tpl_names = ["Gallery %d" % i for i in range(n_tpl)]
    pages = []
    word = [0]
    for t in tpl_names:
        u, a = users()
        word[0] += 1
        pages.append({"title": "Template:" + t, "ns": 10, "id": 0, "users": u, "anon": a,
                      "revs": [{"revid": rid(), "words": ["g%d" % word[0]], "tpls": [],
                                "imgs": rng.sample(img_names, min(n_img, rng.randint(1, 4)))}]})
    art_titles = []
    for i in range(n_art):
        t = "Article %02d" % i
        art_titles.append(t)
        revs = []
        for _ in range(rng.choice([1, 1, 1, 2])):
            word[0] += 1
            revs.append({"revid": rid(), "words": ["w%d" % word[0]],
                         "tpls": rng.sample(tpl_names, min(n_tpl, rng.choice([0, 0, 1, 1, 2]))),
                         "imgs": rng.sample(img_names, min(n_img, rng.choice([0, 1, 1, 2, 3, 6])))})
        u, a = users()
        pages.append({"title": t, "ns": 0, "id": 0, "revs": revs, "users": u, "anon": a})
    redirs = []
    for i in range(rng.choice([0, 0, 1, 2])):
        t = "Red %d" % i
        u, a = users()
        pages.append({"title": t, "ns": 0, "id": 0, "users": u, "anon": a,
                      "revs": [{"revid": rid(), "redirect": rng.choice(art_titles)}]})
        redirs.append(t)
    for n in img_names:
        u, a = users()
        word[0] += 1
        pages.append({"title": "File:" + n, "ns": 6, "id": 0, "users": u, "anon": a, "file": rng.random() < 0.95,
                      "revs": [{"revid": rid(), "words": ["desc%d" % word[0], "of", "image"], "tpls": [], "imgs": []}]})
    rng.shuffle(pages)
    for i, p in enumerate(pages):
        p["id"] = 10 + 2 * i
    wiki = {"pages": pages}
    sw = c11_wiki.SynthWiki(wiki, {})
    listed = rng.sample(art_titles, max(1, int(n_art * rng.choice([0.6, 0.8, 1.0, 1.0]))))
    items = []
    for t in listed:
        r = rng.random()
        if r < 0.12:
            items.append({"title": t, "revision": rng.choice(sw.pages[t]["revs"])["revid"]})
        else:
            items.append({"title": t})
    for t in redirs:
        if rng.random() < 0.7:
            items.insert(rng.randint(0, len(items)), {"title": t})
    for i in range(rng.choice([0, 0, 1, 2])):
        items.insert(rng.randint(0, len(items)), {"title": "Missing %d" % i})
    reached = reached_through_redirects(sw, items)
    items = [{"title": it["title"]} if it.get("revision") and it["title"] in reached else it for it in items]
    if rng.random() < 0.3:
        k = rng.randint(1, len(items))
        items = items[:k] + ([{"chapter": "Part two", "items": items[k:]}] if items[k:] else [])
    small = [1, 1, 1, 2, 2, 3, 5]
    opts = {"req_limit": rng.choice([1, 2, 3, 5, 7, 15, 50]), "res_limit": rng.choice(small), "rvlimit": rng.choice(small),
            "noimages": rng.random() < 0.1, "seed": rng.randint(0, 10 ** 9),
            "latency": rng.choice(["yields"] * 5 + ["bykind"] * 3 + ["zero", "none", "none"]), "bulk": True,
            "timeout": 900}      # seconds of real time the harness waits: ~1000 requests on a machine that may be busy
    return {"id": cid, "wiki": wiki, "metabook": items, "opts": opts}


def gen_case(rng, cid, tier="quick", bulk=None):
    if bulk or (bulk is None and rng.random() < (0.02 if tier == "quick" else 0.03)):
        return gen_bulk_case(rng, cid, tier)
    big = rng.random() < (0.15 if tier == "quick" else 0.25)
    n_art = rng.randint(1, 9 if big else 4)
    n_tpl = rng.randint(0, 6 if big else 3)
    n_img = rng.randint(0, 14 if big else 5)
    pages = []
    nid = [0]
    nrev = [rng.choice([1, 1, 100, 5000])]

    def pid():
        nid[0] += 1
        return nid[0]

    def rid():
        nrev[0] += rng.randint(1, 3)
        return nrev[0]

    def users():
        us = rng.sample(USERS, rng.randint(0, 5))
        return us, rng.choice([0, 0, 1, 3])

    img_names = ["Img %d.png" % i if i % 3 else "Ímg_%d.svg".replace("_", " ") % i for i in range(n_img)]
    ghost_imgs = ["Ghost %d.png" % i for i in range(rng.randint(0, 2))]       # referenced, no page
    tpl_names = ["T%d" % i if i % 2 else "Tpl %d" % i for i in range(n_tpl)]
    ghost_tpls = ["Nope"] if rng.random() < 0.3 else []
    word = [0]

    def body(tpl_pool, img_pool):
        word[0] += 1
        k_t = min(len(tpl_pool), rng.choice([0, 1, 1, 2, 3]))
        k_i = min(len(img_pool), rng.choice([0, 0, 1, 2, 4]))
        return {"words": ["w%d" % word[0]], "tpls": rng.sample(tpl_pool, k_t), "imgs": rng.sample(img_pool, k_i)}

    # templates form a DAG: template i may use templates with a larger index (and ghosts)
    tpl_imgs_only = set()
    for i, t in enumerate(tpl_names):
        u, a = users()
        b = body(tpl_names[i + 1:] + ghost_tpls, img_names + ghost_imgs)
        r = dict(b, revid=rid())
        pages.append({"title": "Template:" + t, "ns": 10, "id": pid(), "revs": [r], "users": u, "anon": a})
    art_titles = []
    for i in range(n_art):
        t = rng.choice(["Art %d", "Ärt %d", "Art (%d)", "A %d b"]) % i
        art_titles.append(t)
        revs = []
        if rng.random() < 0.12:
            # an OLD revision that is a redirect (pinning it lands on a redirect text); "Red k" may or may not exist
            revs.append({"revid": rid(), "redirect": rng.choice(["Art 0", "Red 0", "Red 1", "Gone"])})
        for _ in range(rng.choice([1, 1, 2, 3])):
            b = body(tpl_names + ghost_tpls, img_names + ghost_imgs)
            revs.append(dict(b, revid=rid()))
        u, a = users()
        pages.append({"title": t, "ns": 0, "id": pid(), "revs": revs, "users": u, "anon": a})
    # redirects: chains into articles, dead ends, cycles
    redirs = []
    n_red = rng.choice([0, 1, 2, 3, 5] if big else [0, 0, 1, 2, 3])
    cyc = []
    for i in range(n_red):
        t = "Red %d" % i
        kind = rng.random()
        if kind < 0.55:
            target = rng.choice(redirs) if redirs and rng.random() < 0.5 else rng.choice(art_titles)
        elif kind < 0.7:
            target = "Nowhere %d" % i
        elif kind < 0.8:
            target = t                                  # self loop
        else:
            target = rng.choice(redirs) if redirs else t
            cyc.append((t, target))
        revs = []
        if rng.random() < 0.3:                          # it was an article once
            revs.append(dict(body(tpl_names, img_names), revid=rid()))
        revs.append({"revid": rid(), "redirect": target})
        u, a = users()
        pages.append({"title": t, "ns": 0, "id": pid(), "revs": revs, "users": u, "anon": a})
        redirs.append(t)
    # close some cycles: the target of a "cycle" redirect is re-pointed at the newer redirect
    for t, target in cyc:
        if target != t and rng.random() < 0.7:
            for p in pages:
                if p["title"] == target:
                    p["revs"].append({"revid": rid(), "redirect": t})
    for i, n in enumerate(img_names):
        u, a = users()
        word[0] += 1
        pages.append({"title": "File:" + n, "ns": 6, "id": pid(),
                      "revs": [{"revid": rid(), "words": ["desc%d" % word[0], "of", "image"], "tpls": rng.sample(tpl_names, min(len(tpl_names), rng.choice([0, 0, 1]))), "imgs": []}],
                      "users": u, "anon": a, "file": rng.random() < 0.9})
    rng.shuffle(pages)
    for i, p in enumerate(pages):
        p["id"] = 10 + i * rng.choice([1, 1, 3])
    ids = set()
    for p in pages:
        while p["id"] in ids:
            p["id"] += 1
        ids.add(p["id"])
    wiki = {"pages": pages}
    # ---- metabook
    sw = c11_wiki.SynthWiki(wiki, {})
    items = []
    n_items = rng.randint(1, 10 if big else 5)
    all_revs = {r["revid"] for p in pages for r in p["revs"]}
    for _ in range(n_items):
        r = rng.random()
        if r < 0.5:
            t = rng.choice(art_titles)
            p = sw.pages[t]
            if rng.random() < 0.45:
                items.append({"title": t, "revision": rng.choice(p["revs"])["revid"]})
            else:
                items.append({"title": t})
        elif r < 0.8 and redirs:
            t = rng.choice(redirs)
            p = sw.pages[t]
            if rng.random() < 0.2:
                items.append({"title": t, "revision": rng.choice(p["revs"])["revid"]})
            else:
                items.append({"title": t})
        elif r < 0.93:
            items.append({"title": "Missing %d" % rng.randint(0, 2)})
        else:
            bad = max(all_revs) + rng.randint(1, 5)
            items.append({"title": rng.choice(art_titles), "revision": bad})
    # the same page listed several times with different revisions: pinned + pinned, pinned + unpinned, all of them
    # (every listed (title, revision) must be served with its own text, whatever is stored first)
    if rng.random() < 0.35:
        multi = [t for t in art_titles + redirs if len(sw.pages[t]["revs"]) >= 2] or art_titles
        t = rng.choice(multi)
        revs = [r["revid"] for r in sw.pages[t]["revs"]]
        kind = rng.random()
        if kind < 0.4 and len(revs) >= 2:
            extra = [{"title": t, "revision": r} for r in rng.sample(revs, 2)]
        elif kind < 0.8:
            extra = [{"title": t, "revision": rng.choice(revs)}, {"title": t}]
        else:
            extra = [{"title": t, "revision": r} for r in revs] + [{"title": t}]
            rng.shuffle(extra)
        for e in extra:
            items.insert(rng.randint(0, len(items)), e)
    # the quantifier's exclusion: a title reached through a listed redirect is not listed with a pinned revision
    reached = reached_through_redirects(sw, items)
    items2 = []
    for it in items:
        if it.get("revision") and it["title"] in reached:
            it = {"title": it["title"]}
        items2.append(it)
    # the pinned listing of the starting redirect itself is fine only when nothing else reaches it
    items = items2
    # chapters
    if len(items) > 1 and rng.random() < 0.5:
        k = rng.randint(0, len(items) - 1)
        items = items[:k] + [{"chapter": "Chapter %d" % k, "items": items[k:]}]
        if k > 1 and rng.random() < 0.5:
            items = [{"chapter": "First", "items": items[:1]}] + items[1:]
    lims = [1, 1, 2, 2, 3, 5, 7, 15, 50]
    opts = {"req_limit": rng.choice(lims) if rng.random() < 0.7 else rng.randint(1, 50),
            "res_limit": rng.choice(lims) if rng.random() < 0.7 else rng.randint(1, 50),
            "rvlimit": rng.choice(lims) if rng.random() < 0.7 else rng.randint(1, 50),
            "noimages": rng.random() < 0.25, "seed": rng.randint(0, 10 ** 9),
            "latency": rng.choice(["yields"] * 11 + ["bykind"] * 4 + ["random"] * 2 + ["zero", "zero", "none"])}
    return {"id": cid, "wiki": wiki, "metabook": items, "opts": opts}


def reached_through_redirects(sw, items):
    """titles a listed redirect (a title that redirects today, or a pinned revision whose text is a redirect) leads
    to, every hop included"""
    reached = set()
    for it in items:
        start = None
        if it.get("revision"):
            pr = sw.by_rev.get(it["revision"])
            if pr and pr[1].get("redirect"):
                start = pr[1]["redirect"]
        elif sw.redirect_of(it["title"]):
            start = it["title"]
        if start is not None:
            hops, _final = sw.resolve(start)
            if it.get("revision"):
                reached.add(start)
            for _a, b in hops:
                reached.add(b)
    return reached


def in_domain(case):
    """is the case inside the property's quantifier?  (used by the shrinker: removing pages / revisions changes which
    titles redirect where).  Canonical titles; unique page ids and revision ids; every page has a revision; a title
    reached through a listed redirect is not listed with a pinned revision."""
    pages = case["wiki"]["pages"]
    items = list(flat_articles(case["metabook"]))
    if not items:
        return False
    if len({p["title"] for p in pages}) != len(pages) or len({p["id"] for p in pages}) != len(pages):
        return False
    revids = [r["revid"] for p in pages for r in p["revs"]]
    if len(set(revids)) != len(revids) or any(not p["revs"] for p in pages):
        return False
    sw = c11_wiki.SynthWiki(case["wiki"], {})
    reached = reached_through_redirects(sw, items)
    return not any(it.get("revision") and it["title"] in reached for it in items)


def flat_articles(items):
    for it in items:
        if "chapter" in it:
            yield from flat_articles(it["items"])
        else:
            yield it


# ----------------------------------------------------------------------------- the property's oracle
def authors_value(users, anon):
    """authors.py:get_authors on what sapi.get_contributors collects: bots out, anonymous counted"""
    named = sorted(u for u in users if not BOT_RE.search(u))
    if named or anon:
        named.append("ANONIPEDITS:%d" % anon)
    return named


def expected(case):
    """What property C11 demands of the archive.  Returns (articles, images):
    articles[i] = None (must be skipped) or {"text", "authors", "why"} for the i-th listed article;
    images = {title: {"desc", "authors", "sha1"}} for every image a served text uses and the wiki has."""
    sw = c11_wiki.SynthWiki(case["wiki"], {})
    arts = []
    images = {}
    fetch_images = not case["opts"].get("noimages")
    for it in flat_articles(case["metabook"]):
        title, rev = it["title"], it.get("revision")
        why = []
        served = None
        if rev:
            pr = sw.by_rev.get(rev)
            if pr is None:
                arts.append(None)
                continue
            page, r = pr
            why.append("pinned" if r is page["revs"][-1] else "pinned-old")
            if r.get("redirect"):
                why.append("pinned-redirect")
                hops, final = sw.resolve(r["redirect"])
                if len(hops) >= 1:
                    why.append("redirect-chain")
                if final is None or final not in sw.pages:
                    arts.append(None)
                    continue
                served = sw.current(final)
            else:
                served = r
        else:
            hops, final = sw.resolve(title)
            if hops:
                why.append("redirect" if len(hops) == 1 else "redirect-chain")
            if final is None or final not in sw.pages:
                arts.append(None)
                continue
            served = sw.current(final)
        text = sw.expand(c11_wiki.render(served))
        # contributors the wiki reports for the title (redirects resolved)
        _h, fin = sw.resolve(title)
        auth = authors_value(*sw.contributors_of(fin)) if fin is not None and fin in sw.pages else None
        arts.append({"text": text, "authors": auth, "why": why, "srcrev": served["revid"]})
        if fetch_images:
            for img in sw.images_of_text(c11_wiki.render(served)):
                p = sw.pages.get(img)
                if p is None or not p.get("file"):
                    continue
                via_tpl = img not in {"File:" + i for i in served.get("imgs", [])}
                ent = images.setdefault(img, {"desc": c11_wiki.render(p["revs"][-1]), "authors": authors_value(*sw.contributors_of(img)),
                                              "sha1": hashlib.sha1(img.encode("utf8")).hexdigest(), "why": set()})
                ent["why"].update(why)
                if via_tpl:
                    ent["why"].add("via-template")
                if rev and img not in sw.images_of(sw.by_rev[rev][0]["title"]):
                    ent["why"].add("not-in-current-revision")
    for v in images.values():
        v["why"] = sorted(v["why"])
    return arts, images


ALLOWED_GREENLET = (
    ("RuntimeError", "sapi.py:_handle_error", "action=parse"),      # the HTML of a page/revision that does not exist
    ("KeyError", "fetch.py:expand_templates_from_revid", "'pages'"),  # revids=<no such revision>: no "pages" in the answer
)


def judge(case, res):
    """-> list of (fingerprint, what).  Empty list = the real code met the property on this case."""
    hits = []
    if res.get("harness_error"):
        raise RuntimeError("harness error: " + res["harness_error"])
    arts_exp, imgs_exp = expected(case)
    n_skipped = sum(1 for a in arts_exp if a is None)
    if not res.get("terminated"):
        e = res.get("exc") or {}
        hits.append(("no-normal-termination:%s@%s" % (e.get("type"), "/".join(e.get("where", [])[-2:])),
                     "make_nuwiki did not terminate normally: %s %s" % (e.get("type"), e.get("msg"))))
    for g in res.get("greenlet_errors", []):
        ok = False
        for typ, where, frag in ALLOWED_GREENLET:
            if g["type"] == typ and g["where"] == where and frag in g["msg"] and n_skipped > 0:
                ok = True
        if not ok:
            hits.append(("greenlet-died:%s@%s" % (g["type"], g["where"]),
                         "an exception died silently inside a greenlet: %s: %s (%s)" % (g["type"], g["msg"][:160], " > ".join(g["stack"][-3:]))))
    if res.get("readback_error"):
        if not hits:
            hits.append(("archive-unreadable", res["readback_error"][:300]))
        return hits
    any_auth = bool(res["all"]["authors"])
    for it, exp, got in zip(flat_articles(case["metabook"]), arts_exp, res["articles"]):
        name = "%s@%s" % (it["title"], it.get("revision"))
        if exp is None:
            if got["found"]:
                kind = "missing-title" if not it.get("revision") and it["title"] not in {p["title"] for p in case["wiki"]["pages"]} else "redirect-nowhere-or-circular"
                if any(o["title"] == it["title"] and o.get("revision") for o in flat_articles(case["metabook"])) and not it.get("revision"):
                    kind += "+same-title-also-listed-pinned"
                hits.append(("not-skipped:" + kind, "%s does not exist / leads nowhere, but the archive serves the page %r with text %r"
                             % (name, got.get("page_title"), got.get("text", "")[:80])))
            continue
        shape = "+".join(exp["why"]) or "plain"
        if not got["found"]:
            hits.append(("article-missing:" + shape, "listed article %s is not in the archive" % name))
            continue
        if got["text"] != exp["text"]:
            hits.append(("article-text:" + shape, "article %s: archive has %r, the wiki serves %r" % (name, got["text"][:80], exp["text"][:80])))
        if exp["authors"] is not None and (got.get("authors") or []) != exp["authors"]:
            fp = "contributors-article:" + ("authors.db-empty" if not any_auth else shape)
            hits.append((fp, "article %s: contributors in the archive %r, the wiki reports %r" % (name, got.get("authors"), exp["authors"])))
    for img, exp in imgs_exp.items():
        got = res["images"].get(img)
        shape = "+".join(w for w in exp["why"] if w in ("via-template", "not-in-current-revision", "pinned-redirect")) or "plain"
        if got is None or (not got.get("file") and not got.get("info") and not got.get("desc")):
            hits.append(("image-missing:" + shape, "image %s used by a listed article is not in the archive at all" % img))
            continue
        if not got.get("file") or not got.get("file_ok"):
            hits.append(("image-file:" + shape, "image %s: file missing or different from what the wiki serves" % img))
        if not got.get("info") or got["info"].get("sha1") != exp["sha1"]:
            hits.append(("image-info:" + shape, "image %s: metadata missing or wrong: %r" % (img, got.get("info"))))
        if not got.get("desc") or got["desc"]["text"] != exp["desc"]:
            hits.append(("image-description:" + shape, "image %s: description page %r, the wiki serves %r" % (img, got.get("desc"), exp["desc"][:80])))
        if (got.get("authors") or []) != exp["authors"]:
            fp = "contributors-image:" + ("authors.db-empty" if not any_auth else shape)
            hits.append((fp, "image %s: contributors in the archive %r, the wiki reports %r" % (img, got.get("authors"), exp["authors"])))
    return hits
