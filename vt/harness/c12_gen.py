"""Generator of structured titles for C12 (pure Python, no mwlib import: site data is passed in).

A *group* is one canonical title together with several spellings of it, built from the grammar of the property:
   edge* (":" edge*)*  <namespace name: local | canonical | alias, any letter case, every space as a run of ' '/'_'>
   ws* ":" edge*  <remainder: first letter in either case, every space as a run of ' '/'_'>  edge*
where edge = white space (the 29 code points of `\\s`), U+200E, U+200F or '_', and ws = white space or '_'.
All spellings of a group must normalise to the same triple; the expected triple is computed from the grammar
(the site's id for the name, the local name, the capitalised remainder), never from the code under test.
"""
import unicodedata

WS = [0x9, 0xA, 0xB, 0xC, 0xD, 0x1C, 0x1D, 0x1E, 0x1F, 0x20, 0x85, 0xA0, 0x1680, 0x2000, 0x2001, 0x2002, 0x2003, 0x2004, 0x2005,
      0x2006, 0x2007, 0x2008, 0x2009, 0x200A, 0x2028, 0x2029, 0x202F, 0x205F, 0x3000]
MARKS = [0x200E, 0x200F]
EDGE_POOL = [" ", " ", " ", "_", "_", "\t", "\n", "‎", "‏", "‎", "\xa0", "　", "\x1c", "\x85", " ", "\r", "\x0c"]
WS_POOL = [" ", " ", "_", "\t", "\xa0", " ", "\n"]
# one space of a name written as a run of ' ' / '_' of length 1..9 (any mix)
SPACE_RUNS = [" ", " ", "_", "  ", "__", " _", "_ _", "   ", "___", "    ", "_ __", "  _  ", "______", " _ _ _ ", "         "]
# letters that exercise the case tables: expansions (ß ŉ ǰ ﬁ), title case (ǅ), İ / ı, sigma forms, ſ, µ, Kelvin, non-BMP
# (Deseret 𐐨/𐐀, Adlam), combining ypogegrammeni, emoji; plus plain ASCII and digits and the characters - . ~ % '
LETTERS = ["ß", "ŉ", "ǆ", "ǅ", "Ǆ", "İ", "ı", "σ", "ς", "Σ", "ſ", "µ", "K", "ﬁ", "ǰ", "ͅ", "\U00010428", "\U00010400",
           "\U0001e922", "\U0001F600", "é", "É", "ö", "Ö", "я", "Я", "の", "中",
           "a", "b", "c", "i", "s", "k", "x", "A", "B", "I", "S", "X", "z", "Q", "0", "1", "9", "-", ".", "~", "%", "'", "(", ")", "/"]


def _capfold_table():
    """x -> characters y != x whose upper case lower-cases to x.lower() although y.lower() differs (dotless i, long s, ...):
    a title starting with y capitalises into text that a second pass reads differently"""
    tab = {}
    for c in range(0x110000):
        y = chr(c)
        u = y.upper()
        if len(u) == 1 and u.lower() != y.lower() and len(u.lower()) == 1:
            tab.setdefault(u.lower(), []).append(y)
    return tab


CAPFOLD = _capfold_table()


def case_candidates(ch):
    """one-to-one case variants of a character of a namespace name (as in coq/C12/Proofs.v cv_char)"""
    res = [ch]
    u, lo = ch.upper(), ch.lower()
    if len(u) == 1 and u not in res:
        res.append(u)
    if len(lo) == 1 and lo not in res:
        res.append(lo)
    return res


def capitalize(s):
    return s[0:1].upper() + s[1:]


class Gen:
    def __init__(self, rng, sites):
        """sites: {lang: {"namespaces": [(id, star, canonical|None)], "aliases": [(id, name)], "capitalize": bool}}"""
        self.rng = rng
        self.sites = sites
        self.langs = sorted(sites)
        self.names = {}
        for lang, s in sites.items():
            star = {i: st for i, st, _c in s["namespaces"]}
            lst = []
            for i, st, canon in s["namespaces"]:
                if st:
                    lst.append((i, st, "local"))
                if canon:
                    lst.append((i, canon, "canonical"))
            for i, a in s["aliases"]:
                if i in star and a:
                    lst.append((i, a, "alias"))
            self.names[lang] = (star, lst)
        # every namespace name/alias ANY site knows: titles carrying a name of another site ("Portal:x" on a site without
        # portal namespace) must be read against the site's own table
        self.all_names = sorted({n for lang in self.langs for _i, n, _k in self.names[lang][1]})

    # ---- pieces
    def edge(self, p0=0.55):
        r = self.rng
        if r.random() < p0:
            return ""
        return "".join(r.choice(EDGE_POOL) for _ in range(r.choice([1, 1, 2, 3, 5])))

    def wsrun(self):
        r = self.rng
        if r.random() < 0.6:
            return ""
        return "".join(r.choice(WS_POOL) for _ in range(r.choice([1, 1, 2, 3])))

    def spaces(self, s):
        r = self.rng
        return "".join(c if c != " " else r.choice(SPACE_RUNS) for c in s)

    def casevar(self, name):
        r = self.rng
        k = r.random()
        if k < 0.15:
            return name
        if k < 0.3:
            pick = lambda cs: cs[1] if len(cs) > 1 else cs[0]
        elif k < 0.45:
            pick = lambda cs: cs[-1]
        else:
            pick = r.choice
        return "".join(pick(case_candidates(c)) for c in name)

    def remainder(self, allow_colon):
        """a tidy remainder: no '_', no double space, first and last character not an edge character"""
        r = self.rng
        n = r.choice([0, 1, 1, 2, 3, 4, 6, 9])
        out = []
        for i in range(n):
            k = r.random()
            if k < 0.12 and 0 < i < n - 1 and out[-1] != " ":
                out.append(" ")
            elif k < 0.18 and allow_colon:
                out.append(":")
            elif k < 0.2:
                out.append(chr(r.choice([r.randrange(0x21, 0x7F), r.randrange(0xA1, 0x250), r.randrange(0x370, 0x530),
                                         r.randrange(0x1E00, 0x2000), r.randrange(0x2C00, 0x2D30), r.randrange(0xA640, 0xA7FF),
                                         r.randrange(0xFB00, 0xFB18), r.randrange(0xFF21, 0xFF5B), r.randrange(0x10400, 0x10450)])))
            else:
                out.append(r.choice(LETTERS))
        s = "".join(out)
        s = s.replace("_", "-")
        if not allow_colon:
            s = s.replace(":", "-")
        while s and (s[-1].isspace() or ord(s[-1]) in MARKS):
            s = s[:-1]
        while s and (s[0].isspace() or ord(s[0]) in MARKS):
            s = s[1:]
        while "  " in s:
            s = s.replace("  ", " ")
        return s

    def first_letter_variants(self, p0):
        if not p0:
            return [p0]
        c, rest = p0[0], p0[1:]
        res = [p0]
        lo = c.lower()
        if len(lo) == 1 and lo.upper() == c.upper() and lo + rest not in res:
            res.append(lo + rest)
        u = c.upper()
        if u + rest not in res:
            res.append(u + rest)
        return res

    def lead_colons(self):
        r = self.rng
        k = r.random()
        if k < 0.7:
            return ""
        if k < 0.93:
            return ":" + self.edge()
        return "".join(":" + self.edge() for _ in range(r.choice([2, 3])))

    # ---- groups
    def sweep(self):
        """EVERY (site, namespace name of any bundled site): one plainly spelled title '<name, random letter case>:x<k>'.
        The site's answer is judged against its own siteinfo (own name -> that namespace; name of another site only ->
        an ordinary title of the default namespace)."""
        r = self.rng
        out = []
        for lang in self.langs:
            own = {m.lower() for _i, m, _k in self.names[lang][1]}
            for n in self.all_names:
                sp = self.casevar(n) + ":" + r.choice(["x", "some page", "1", "é"])
                out.append({"kind": "sweep_own" if n.lower() in own else "sweep_foreign", "lang": lang, "dns": r.choice([0, 0, 6, 10, 14]),
                            "spellings": [sp], "expect": None})
        r.shuffle(out)
        return out

    def group(self):
        r = self.rng
        lang = r.choice(self.langs)
        dns = r.choice([0, 0, 6, 10, 14])
        cap = self.sites[lang]["capitalize"]
        star, names = self.names[lang]
        k = r.random()
        nsp = r.choice([2, 3, 4, 6])
        if k < 0.14:
            # a namespace name taken from the pool of ALL sites, asked of two or three sites one after the other: each site
            # must answer from its own table (expected value: vt/harness/c12_ref.canon on the site's own JSON)
            n = r.choice(self.all_names)
            owners = [lg for lg in self.langs if any(m.lower() == n.lower() for _i, m, _k in self.names[lg][1])]
            others = [lg for lg in self.langs if lg not in owners]
            langs = [lang]
            if owners:
                langs.append(r.choice(owners))
            if others:
                langs.append(r.choice(others))
            r.shuffle(langs)
            p0 = self.remainder(allow_colon=False) or "x"
            sp = []
            for _ in range(r.choice([1, 2, 3])):
                sp.append(self.edge(0.8) + self.lead_colons() + self.spaces(self.casevar(n)) + self.wsrun() + ":" + self.edge(0.8)
                          + self.spaces(r.choice(self.first_letter_variants(p0))) + self.edge(0.8))
            sp.append(n + ":" + p0)
            return {"kind": "foreign", "lang": langs[0], "langs": langs, "dns": dns, "spellings": sp, "expect": None}
        k = r.random()
        if k < 0.6:
            # namespaced title
            nsid = r.choice(sorted({i for i, _n, _k in names}))
            mine = [n for i, n, _k in names if i == nsid]
            p0 = self.remainder(allow_colon=True)
            canon_p = capitalize(p0) if cap else p0
            expect = [nsid, canon_p, star[nsid] + ":" + canon_p]
            sp = []
            for _ in range(nsp):
                n = self.casevar(r.choice(mine))
                p = r.choice(self.first_letter_variants(p0)) if cap else p0
                sp.append(self.edge() + self.lead_colons() + self.spaces(n) + self.wsrun() + ":" + self.edge() + self.spaces(p) + self.edge())
            sp.append(expect[2])   # the canonical name itself is one of the spellings
            return {"kind": "ns", "lang": lang, "dns": dns, "spellings": sp, "expect": expect}
        if k < 0.8:
            # title without namespace prefix: lands in the default namespace (main namespace after a leading colon)
            p0 = self.remainder(allow_colon=False)
            colon = r.random() < 0.3
            ns = 0 if colon else dns
            canon_p = capitalize(p0) if cap else p0
            expect = [ns, canon_p, (star[ns] + ":" if star[ns] else "") + canon_p]
            sp = []
            for _ in range(nsp):
                p = r.choice(self.first_letter_variants(p0)) if cap else p0
                lead = ""
                if colon:
                    lead = ":" + self.edge()
                    if r.random() < 0.15:
                        lead = ":" + self.edge() + lead
                sp.append(self.edge() + lead + self.spaces(p) + self.edge())
            return {"kind": "plain", "lang": lang, "dns": dns, "spellings": sp, "expect": expect}
        # wild: arbitrary mixes of names, fragments, separators, marks; only idempotence and shape are demanded
        sp = []
        if k < 0.86 and names:
            # a namespace name whose first letter is replaced by a letter that only capitalisation folds onto it
            for _ in range(nsp):
                n = r.choice(names)[1]
                alts = CAPFOLD.get(n[0].lower())
                if alts:
                    n = r.choice(alts) + n[1:]
                sp.append(self.edge() + self.lead_colons() + self.spaces(n) + self.wsrun() + ":" + self.edge()
                          + self.spaces(self.remainder(allow_colon=True)) + self.edge())
            return {"kind": "wild", "lang": lang, "dns": dns, "spellings": sp, "expect": None}
        for _ in range(nsp):
            parts = []
            for _j in range(r.choice([1, 2, 3, 4])):
                q = r.random()
                if q < 0.35 and names:
                    n = r.choice(names)[1]
                    if r.random() < 0.4:
                        i = r.randrange(len(n))
                        n = n[:i] + r.choice(["ı", "ſ", "K", "İ", "Σ", "ς", "‎", " ", ":"]) + n[i + 1:]
                    parts.append(self.spaces(self.casevar(n)) if r.random() < 0.7 else n)
                elif q < 0.7:
                    parts.append(self.spaces(self.remainder(allow_colon=True)))
                else:
                    parts.append(self.edge(0.2))
                parts.append(r.choice([":", ":", "", " :", ": ", "::", "‎:", ""]))
            sp.append(self.edge() + "".join(parts) + self.edge())
        return {"kind": "wild", "lang": lang, "dns": dns, "spellings": sp, "expect": None}


def nontrivial(title):
    """a case is non-trivial when it has something to normalise: a decoration, a separator, or a non-ASCII letter"""
    return any((not c.isascii()) or c in " _:\t\n" for c in title)


def unicode_info():
    return unicodedata.unidata_version
