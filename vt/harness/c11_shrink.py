"""C11 — delta debugging of a failing (wiki, metabook, options) case; pure Python, no mwlib imports.

A case is decomposed into removable ATOMS (metabook items, the chapter structure, pages, revisions, template /
image uses of a revision, contributors, anonymous-edit counts).  `ddmin` removes atoms as long as the
predicate `test` (the real fetcher run on the rebuilt case + the property's oracle reporting the same kind of
violation, AND the rebuilt case still inside the property's quantifier) holds.  Afterwards the options are
simplified (no batching, no latency) and - when latency matters - the random latencies are replaced by the
explicit list of per-request yield counts that was drawn, and that list is minimised too (entries -> 0), so
that a replay shows the smallest wiki, the smallest metabook and the few responses that have to be late.

Candidates of one round are evaluated as a batch (`test_batch(list of cases) -> list of bool`) so that the
caller can run them in parallel.
"""
import copy
import json
import time


def flat_items(items):
    for it in items:
        if "chapter" in it:
            yield from flat_items(it["items"])
        else:
            yield it


def atoms_of(case):
    atoms = []
    n = len(list(flat_items(case["metabook"])))
    for i in range(n):
        atoms.append(("item", i))
    if any("chapter" in x for x in case["metabook"]):
        atoms.append(("chapters",))
    for p in case["wiki"]["pages"]:
        t = p["title"]
        atoms.append(("page", t))
        for r in p["revs"]:
            atoms.append(("rev", t, r["revid"]))
            for x in r.get("tpls", []):
                atoms.append(("tpl", t, r["revid"], x))
            for x in r.get("imgs", []):
                atoms.append(("img", t, r["revid"], x))
        for u in p.get("users", []):
            atoms.append(("user", t, u))
        if p.get("anon"):
            atoms.append(("anon", t))
        if p.get("file"):
            atoms.append(("file", t))
    return atoms


def rebuild(case, keep):
    """the sub-case that consists of the atoms in `keep` (a set)"""
    keep = set(keep)
    counter = [0]

    def conv(items, nested):
        out = []
        for it in items:
            if "chapter" in it:
                sub = conv(it["items"], nested)
                if nested:
                    if sub:
                        out.append({"chapter": it["chapter"], "items": sub})
                else:
                    out.extend(sub)
            else:
                i = counter[0]
                counter[0] += 1
                if ("item", i) in keep:
                    out.append(dict(it))
        return out
    mb = conv(case["metabook"], ("chapters",) in keep)
    pages = []
    for p in case["wiki"]["pages"]:
        t = p["title"]
        if ("page", t) not in keep:
            continue
        revs = []
        for r in p["revs"]:
            if ("rev", t, r["revid"]) not in keep:
                continue
            r2 = dict(r)
            if "tpls" in r:
                r2["tpls"] = [x for x in r["tpls"] if ("tpl", t, r["revid"], x) in keep]
            if "imgs" in r:
                r2["imgs"] = [x for x in r["imgs"] if ("img", t, r["revid"], x) in keep]
            revs.append(r2)
        if not revs:
            continue
        p2 = dict(p, revs=revs)
        if "users" in p:
            p2["users"] = [u for u in p["users"] if ("user", t, u) in keep]
        if p.get("anon") and ("anon", t) not in keep:
            p2["anon"] = 0
        if p.get("file") and ("file", t) not in keep:
            p2["file"] = False
        pages.append(p2)
    return {"id": case.get("id"), "wiki": {"pages": pages}, "metabook": mb, "opts": dict(case["opts"])}


def key_of(case):
    return json.dumps([case["wiki"], case["metabook"], case["opts"]], sort_keys=True)


class Budget:
    def __init__(self, seconds, max_runs):
        self.deadline = time.time() + seconds
        self.runs_left = max_runs
        self.runs = 0

    def ok(self):
        return time.time() < self.deadline and self.runs_left > 0


def cached(test_batch, budget):
    cache = {}

    def tb(cases):
        keys = [key_of(c) for c in cases]
        need = {}
        for k, c in zip(keys, cases):
            if k not in cache and k not in need:
                need[k] = c
        if need:
            if not budget.ok():
                return [cache.get(k, False) for k in keys]
            res = test_batch(list(need.values()))
            budget.runs_left -= len(need)
            budget.runs += len(need)
            for k, r in zip(need.keys(), res):
                cache[k] = bool(r)
        return [cache[k] for k in keys]
    return tb


def ddmin(items, build, tb, budget, width=16):
    """smallest sub-list of `items` (1-minimal when the budget allows) for which tb([build(sub)]) holds.
    Assumes the predicate holds for `items`."""
    cur = list(items)
    n = 2
    while len(cur) >= 1 and budget.ok():
        n = min(n, len(cur))
        size = -(-len(cur) // n)
        chunks = [cur[i:i + size] for i in range(0, len(cur), size)]
        cands = []
        if n == 2 and len(chunks) == 2:
            cands = [chunks[0], chunks[1]]
        else:
            cands = [c for c in chunks if len(c) < len(cur)] if n <= 4 else []      # a subset may do
            for i in range(len(chunks)):
                cands.append([x for j, c in enumerate(chunks) if j != i for x in c])    # complements
        found = None
        for off in range(0, len(cands), width):
            part = cands[off:off + width]
            res = tb([build(c) for c in part])
            for c, ok in zip(part, res):
                if ok and (found is None or len(c) < len(found)):
                    found = c
            if found is not None or not budget.ok():
                break
        if found is not None:
            cur = found
            n = max(2, n - 1)
        elif n >= len(cur):
            break
        else:
            n = min(len(cur), 2 * n)
    return cur


def shrink(case, test_batch, run_one, seconds=40, max_runs=4000, log=None):
    """-> (smaller case, info).  `test_batch(cases) -> [bool]`: does the violation show (and is the case in the
    quantifier's domain)?  `run_one(case) -> result dict` (needs "lat_log")."""
    budget = Budget(seconds, max_runs)
    tb = cached(test_batch, budget)
    info = {"size_before": len(key_of(case)), "atoms_before": len(atoms_of(case))}
    case = copy.deepcopy(case)
    case.pop("shrunk", None)
    if not tb([case])[0]:
        info["note"] = "the violation did not show again when the case was re-run: not shrunk (latencies in real time?)"
        return case, info

    def set_opts(c, **kw):
        c2 = copy.deepcopy(c)
        c2["opts"].update(kw)
        return c2

    def simplify_opts(c):
        # simplest schedule first, then no batching
        for kw in ({"latency": "none"}, {"latency": "zero"}):
            if c["opts"].get("latency") != "none" and c["opts"].get("latency") != kw["latency"] and budget.ok():
                c2 = set_opts(c, **kw)
                if tb([c2])[0]:
                    c = c2
                    break
        for k in ("req_limit", "res_limit", "rvlimit"):
            for v in (50, 15, 5, 3, 2):
                if c["opts"].get(k, 50) < v and budget.ok():
                    c2 = set_opts(c, **{k: v})
                    if tb([c2])[0]:
                        c = c2
                        break
        # a limit that cannot be raised matters (continuation): the SMALLEST limit makes every page / contributor
        # count for more rounds, so that fewer of them are needed to show the same thing
        for k in ("rvlimit", "res_limit"):
            if 1 < c["opts"].get(k, 50) < 50 and budget.ok():
                c2 = set_opts(c, **{k: 1})
                if tb([c2])[0]:
                    c = c2
        if c["opts"].get("noimages") and budget.ok():
            c2 = set_opts(c, noimages=False)
            if tb([c2])[0]:
                c = c2
        return c

    def structure(c):
        atoms = atoms_of(c)
        kept = ddmin(atoms, lambda sub: rebuild(c, sub), tb, budget)
        return rebuild(c, kept)

    case = simplify_opts(case)
    case = structure(case)
    # latency matters: make the schedule explicit and minimise it
    lat = case["opts"].get("latency")
    if isinstance(lat, dict):
        lat = "bykind"
    if lat in ("yields", "bykind", "random") and budget.ok():
        seq = None
        if lat != "random":
            res = run_one(case)
            seq = [x for x in res.get("lat_log", []) if isinstance(x, int)]
        else:
            # real-time latencies are not reproducible: look for a virtual schedule that shows the same
            for seed in range(12):
                c2 = set_opts(case, latency="yields", seed=seed)
                if tb([c2])[0]:
                    res = run_one(c2)
                    seq = [x for x in res.get("lat_log", []) if isinstance(x, int)]
                    case = c2
                    break
        if seq is not None:
            c2 = set_opts(case, latency=seq)
            if tb([c2])[0]:
                case = c2
                idx = [i for i, v in enumerate(seq) if v]
                kept = ddmin(idx, lambda sub: set_opts(case, latency=[v if i in set(sub) else 0 for i, v in enumerate(seq)]), tb, budget)
                seq = [v if i in set(kept) else 0 for i, v in enumerate(seq)]
                # smaller delays
                for i in kept:
                    for v in (1, 2, 4, 8):
                        if v < seq[i] and budget.ok():
                            s2 = list(seq)
                            s2[i] = v
                            if tb([set_opts(case, latency=s2)])[0]:
                                seq = s2
                                break
                while seq and seq[-1] == 0:
                    seq.pop()
                c3 = set_opts(case, latency=seq)
                if tb([c3])[0]:
                    case = c3
                case = structure(case)
                seq = list(case["opts"]["latency"]) if isinstance(case["opts"].get("latency"), list) else None
                if seq:
                    # the structure changed: the schedule may shrink further
                    idx = [i for i, v in enumerate(seq) if v]
                    kept = ddmin(idx, lambda sub: set_opts(case, latency=[v if i in set(sub) else 0 for i, v in enumerate(seq)]), tb, budget)
                    seq = [v if i in set(kept) else 0 for i, v in enumerate(seq)]
                    while seq and seq[-1] == 0:
                        seq.pop()
                    c3 = set_opts(case, latency=seq)
                    if tb([c3])[0]:
                        case = c3
    case = simplify_opts(case)
    info.update(size_after=len(key_of(case)), atoms_after=len(atoms_of(case)), runs=budget.runs,
                budget_exhausted=not budget.ok())
    return case, info
