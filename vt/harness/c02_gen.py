"""C02 document grammar: random well-formed documents, their serialisations (with whitespace / spelling
variants) and the Python mirror of the Gallina denotation coq/C02/Model.v `denote` (the mirror is checked
against the extracted Gallina function on every run by vt/props/c02.py).

doc      = list of blocks
block    = ("h", level 1..6, inline)                    heading
         | ("p", [inline line, ...])                     paragraph (lines joined by single newlines)
         | ("list", [(prefix over *#;:, inline, desc), ...])   consecutive list lines; desc = None, or the inline after the
                                                         first top-level colon of a line whose prefix ends in ';' (the one-line
                                                         definition item "; term : description")
         | ("table", [row, ...]); row = [(is_header, cellbody), ...]; cellbody = ("inl", inline) | ("blocks", [block...])
         | ("table", [row, ...], (attrs, inline))        the same with a caption line "|+ inline" / "|+ attrs | inline" in front of the
                                                         first row; the caption holds any inline content (links with labels - whose pipe
                                                         is NOT the attribute separator -, styles, named URLs, refs, repeated tokens)
         | ("pre", [inline(words only) line, ...])       lines starting with one space
inline   = list of: ("w", word) | ("b", variant, inline) | ("i", variant, inline) | ("link", target, inline)
                    | ("ext", url, inline) | ("ref", inline)
                    | ("nslink", target, colon, kind, full, inline)   [[Prefix:Name]] / [[:Prefix:Name]] with an optional label; the
                          prefix is drawn from the namespace names, canonical names and aliases and the interwiki prefixes of ALL bundled
                          site languages, so in the language of the document it may be a category / file / other namespace, a language or
                          interwiki prefix, or mean nothing (then the whole target names an article).  kind (article, category, image, ns,
                          lang, interwiki) and full (the target with the namespace name of THIS language) are computed by `NsOracle` from
                          the raw siteinfo JSON of the document's language - not by mwlib's NsHandler.
                    | ("x", token, glue_left, glue_right)     a SHORT REPEATED text token: one punctuation character
                                                              (: | , ; / &amp;) or the repeated word "und"; glue_* = no blank
                                                              between it and its neighbour ("[[A]]:[[B]] w1:w2")
                    | ("apo", kind, where, inline, word)      an apostrophe run that is ONE apostrophe longer than the markup:
                          kind "i" where "close":  ''body'''word      (possessive:  ''Hamlet'''s)
                          kind "b" where "close":  '''body''''word
                          kind "i" where "open":   word'''body''      (elision:  L'''arbre'')
                          kind "b" where "open":   word''''body'''
Leaves are the maximal alphanumeric runs and the single punctuation characters of the text (vt/harness/c02_impl.py splits the
captions of the Text nodes the same way, so the leaf sequence does not depend on how the parser chops text into nodes).  Words
are unique (every such leaf can be found again in the parse tree); the "x" tokens and the literal apostrophe are deliberately
NOT unique: the same token occurs several times among the children of one parent, alone between two non-text siblings (links,
named URLs, styles) and inside longer text runs - the shape on which deleting/moving "the first equal sibling" goes wrong.

The denotation of a document is the list of its leaves in source order, each with
  chain  = structural ancestors, outermost first: ("sec", level) / ("heading",) / ("ul",) ("ol",) ("li",) ("dt",) ("dd",)
           / ("table",) ("row",) ("cell", is_header) / ("pre",) / ("ref",) / ("link", target) / ("ext", url) / ("p",)
           each with the ordinal of the node among the siblings of the same label that contain a leaf
  styles = subset of {bold, italic}

Kept away from ambiguity (the property only speaks about well-formed constructs):
  * quote styles: ''' nests only inside '' (or <i>) and '' only inside ''' (or <b>), at most one level each (apostrophes toggle,
    they do not nest).  The first and last element of a ''/''' span is a word, except in the "touching" spans made by
    `touch_span`: there the inner span sits at the right edge, the left edge or both edges of the outer one, which gives runs of
    five apostrophes (three-w-two-w-five, five-w-two-w-three, five-w-five).  Two spans never follow each other without a word between;
  * a run one apostrophe longer than the markup ("apo"): the surplus apostrophe is literal text.  MediaWiki (Parser::doQuotes)
    makes the FIRST apostrophe of the run the literal one (`$arr[$i-1] .= "'"`), so it belongs to the text in front of the run:
    ''Hamlet'''s = <i>Hamlet'</i>s, L'''arbre'' = L'<i>arbre</i>, '''Lear''''s = <b>Lear'</b>s.  A run of four is resolved
    locally; a run of three is read as apostrophe + italic only when the line has an odd number of both '' and ''' runs, and
    WHICH ''' run is chosen depends on the preceding characters - so a physical line with a three-run "apo" has no other '''
    (or five) run at all (bold there is <b>/<strong> only), which leaves exactly one candidate;
  * "x" tokens: never the first thing on a line (: ; would be list markers), no ':' in a list line whose prefix has a ';', no '|'
    in tables and link labels, never a WORD glued to a link (link trail), only punctuation;
  * list items, headings, cells written on one line contain no newline; a colon appears in a list line only as THE separator of
    a one-line definition item (prefix ending in ';', colon at top level of the line, no colon in the term outside link targets,
    urls and refs); a line after such an item that extends its prefix ("; t : d" then ";* x") is a sub-list of the description;
    list prefixes change only in ways whose MediaWiki meaning is the prefix tree (see `denote_list`);
  * tables: every row starts with an explicit |- line; cell bodies with blocks start on their own line;
  * no links inside links, no refs inside refs, no ext-link label containing ']';
  * namespace-prefixed links: only prefixes made of letters whose lower/upper casing round-trips; a prefix that is BOTH a namespace
    and an interwiki prefix in the language of the document is not generated (MediaWiki and mwlib look them up in a different
    order); category links carry no label (it would be a sort key, not text), file links at most a plain caption and no
    thumb/frame/alignment option (those turn the image into a block)."""
import json
import os

WORDCHARS = "abcdefghijklmnopqrstuvwxyz"
PUNCT = [":", ":", "|", ",", ";", "/", "&amp;", "und"]
X_TEXT = {"&amp;": "&"}
APO = "'"


def _cap(t):
    return t[0:1].upper() + t[1:]


def _simple_prefix(p):
    """letters only, casing round-trips (so that lower-casing, which mwlib and the oracle both apply, cannot be the point)"""
    return bool(p) and p.isalpha() and p.upper().lower() == p.lower() and p.lower().upper() == p.upper() and _cap(p).lower() == p.lower()


IW_SAMPLE = ["wikt", "b", "s", "q", "n", "v", "commons", "meta", "m", "mw", "wiktionary", "wikibooks", "wikisource", "wikiquote", "wikinews",
             "wikiversity", "species", "foundation", "doi", "google"]


class NsOracle:
    """What a namespace-prefixed link denotes in a site language, computed from the raw siteinfo JSON files bundled with mwlib
    (data, not code: mwlib.core.nshandling is not used).  namespaces: local name, canonical name, aliases, compared case-insensitively;
    interwikimap: prefix -> language link (entry has a language) or interwiki link."""
    AMBIGUOUS = "ambiguous"

    def __init__(self, sites_dir, langs):
        self.langs = list(langs)
        self.ns = {}
        self.iw = {}
        groups = {}
        for lang in self.langs:
            with open(os.path.join(sites_dir, "siteinfo-%s.json" % lang), encoding="utf-8") as fh:
                info = json.load(fh)
            names = {}

            def put(name, nsid, names=names, info=info):
                low = name.lower().strip()
                val = (nsid, info["namespaces"][str(nsid)]["*"])
                if low in names and names[low] != val:
                    names[low] = self.AMBIGUOUS
                else:
                    names[low] = val
            for nsp in info["namespaces"].values():
                if nsp["*"]:
                    put(nsp["*"], nsp["id"])
                if nsp.get("canonical"):
                    put(nsp["canonical"], nsp["id"])
            for al in info.get("namespacealiases", []):
                put(al["*"], al["id"])
            self.ns[lang] = names
            self.iw[lang] = {k["prefix"]: bool(k.get("language")) for k in info.get("interwikimap", [])}
            for nsp in list(info["namespaces"].values()) + list(info.get("namespacealiases", [])):
                for nm in (nsp["*"], nsp.get("canonical") or ""):
                    if _simple_prefix(nm):
                        g = "cat" if nsp["id"] == 14 else "file" if nsp["id"] == 6 else "other"
                        groups.setdefault(g, set()).add(nm)
        iw_all = set.intersection(*[set(self.iw[lang]) for lang in self.langs]) if self.langs else set()
        groups["iw"] = {p for p in list(self.langs) + IW_SAMPLE if p in iw_all and _simple_prefix(p)}
        # a name may be a category name in one language and a file alias in another: the group only steers what label the link gets
        self.pool = {g: sorted(v) for g, v in groups.items()}

    def resolve(self, lang, prefix):
        """(kind, name of the namespace in `lang` or None); None when the prefix is ambiguous in that language"""
        low = prefix.strip().lower()
        iw = self.iw[lang].get(low)
        nsv = self.ns[lang].get(low)
        if iw is not None and nsv is not None:
            return None
        if iw is not None:
            return ("lang" if iw else "interwiki", None)
        if nsv is None:
            return ("article", None)
        if nsv == self.AMBIGUOUS:
            return None
        nsid, local = nsv
        return ("image" if nsid == 6 else "category" if nsid == 14 else "article" if nsid == 0 else "ns", local)


class Gen:
    def __init__(self, rng, size, ns=None, lang=None, captions=False):
        self.rng = rng
        self.n = 0
        self.size = size
        self.ns = ns                # NsOracle: namespace-prefixed links are generated (denotation in language `lang`)
        self.lang = lang
        self.captions = captions    # tables get caption lines
        self.forbid = frozenset()   # "x" tokens that would be markup in the current context
        self.noq3 = False           # the current physical line holds a three-run "apo": no other bold quote runs on it

    def word(self):
        self.n += 1
        return "w%dx%s" % (self.n, "".join(self.rng.choice(WORDCHARS) for _ in range(self.rng.randint(0, 3))))

    def words(self, k=None):
        return [("w", self.word()) for _ in range(k or self.rng.randint(1, 3))]

    def nslink(self, allow_b=True, allow_i=True, plain_label=False):
        """[[Prefix:Name]] with a prefix that is a namespace / interwiki prefix in SOME bundled language; denotation in self.lang"""
        rng = self.rng
        for _attempt in range(20):
            g = rng.choice(["cat", "cat", "file", "file", "other", "other", "iw"])
            prefix = rng.choice(self.ns.pool[g])
            r = rng.random()
            if r < 0.12:
                prefix = prefix.lower()
            elif r < 0.2:
                prefix = prefix.upper()
            res = self.ns.resolve(self.lang, prefix)
            if res is not None:
                break
        else:
            return ("link", "T" + self.word(), [])
        kind, local = res
        name = "T" + self.word() + (".png" if g == "file" and rng.random() < 0.8 else "")
        target = "%s:%s" % (prefix, name)
        colon = rng.random() < 0.15
        full = "" if kind in ("lang", "interwiki") else "%s:%s" % (local, name) if local is not None else _cap(target)
        if colon:
            kind = "ns"
        label = []
        if g != "cat" and rng.random() < 0.4:
            if g == "file" or plain_label:
                label = self.words(rng.randint(1, 2))
            else:
                saved = self.forbid
                self.forbid = saved | {"|"}
                label = self.inline(2, False, False, allow_b, allow_i)
                self.forbid = saved
        return ("nslink", target, colon, kind, full, label)

    def inline(self, depth=0, allow_link=True, allow_ref=True, allow_b=True, allow_i=True):
        rng = self.rng
        out = []
        for _ in range(rng.randint(1, 3)):
            r = rng.random()
            if depth <= 1 and rng.random() < 0.12:
                out.extend(self.sep_run(allow_link, allow_b, allow_i))
            elif self.ns is not None and allow_link and rng.random() < 0.09:
                out.append(self.nslink(allow_b, allow_i))
            elif depth >= 3 or r < 0.45:
                out.extend(self.words(rng.randint(1, 2)))
            elif r < 0.57 and allow_b:
                v = rng.choice(["tag", "strong"] if self.noq3 else ["q", "q", "tag", "strong"])
                inner = self.words(1) + (self.inline(depth + 1, allow_link, allow_ref, allow_b=False, allow_i=allow_i) if rng.random() < 0.5 else []) + self.words(1)
                out.append(("b", v, inner))
            elif r < 0.69 and allow_i:
                v = rng.choice(["q", "q", "tag", "em"])
                inner = self.words(1) + (self.inline(depth + 1, allow_link, allow_ref, allow_b=allow_b, allow_i=False) if rng.random() < 0.5 else []) + self.words(1)
                out.append(("i", v, inner))
            elif r < 0.74 and allow_b and allow_i and not self.noq3:
                out.append(self.touch_span())
            elif r < 0.80 and allow_link:
                t = "T" + self.word()
                if rng.random() < 0.3:
                    out.append(("link", t, []))
                else:
                    saved = self.forbid
                    self.forbid = saved | {"|"}
                    out.append(("link", t, self.inline(depth + 1, False, False, allow_b, allow_i)))
                    self.forbid = saved
            elif r < 0.88 and allow_link:
                out.append(("ext", "http://example.org/" + self.word(), self.inline(depth + 1, False, False, allow_b, allow_i)))
            elif r < 0.95 and allow_ref:
                out.append(("ref", self.inline(depth + 1, allow_link, False, allow_b, allow_i)))
            else:
                out.extend(self.words(1))
            # separate apostrophe runs: always put a word between two elements
            out.extend(self.words(1))
        return out

    def sep(self, seps):
        rng = self.rng
        tok = rng.choice(seps)
        if tok.isalpha():
            return ("x", tok, False, False)
        gl, gr = rng.choice([(True, True), (True, True), (True, True), (False, False), (True, False), (False, True)])
        return ("x", tok, gl, gr)

    def sep_item(self, allow_link, allow_b, allow_i):
        rng = self.rng
        r = rng.random()
        if self.ns is not None and allow_link and rng.random() < 0.12:
            return [self.nslink(allow_b, allow_i, plain_label=True)]
        if r < 0.3 and allow_link:
            return [("link", "T" + self.word(), [])]
        if r < 0.42 and allow_link:
            return [("link", "T" + self.word(), self.words(rng.randint(1, 2)))]
        if r < 0.55 and allow_link:
            return [("ext", "http://example.org/" + self.word(), self.words(rng.randint(1, 2)))]
        if r < 0.67 and allow_b:
            return [("b", rng.choice(["tag", "strong"] if self.noq3 else ["q", "tag", "strong"]), self.words(rng.randint(1, 2)))]
        if r < 0.8 and allow_i:
            return [("i", rng.choice(["q", "tag", "em"]), self.words(rng.randint(1, 2)))]
        return self.words(rng.randint(1, 2))

    def sep_run(self, allow_link=True, allow_b=True, allow_i=True):
        """items (links, named URLs, styled spans, words) separated by the SAME one or two short tokens, glued or not, then
        a plain text run that contains the token again:  [[A]]:[[B]] w1 w2:w3  |  <b>a</b> | <b>b</b> | w1 | w2"""
        rng = self.rng
        alpha = [t for t in PUNCT if t not in self.forbid]
        seps = [rng.choice(alpha)] + ([rng.choice(alpha)] if rng.random() < 0.3 else [])
        out = []
        n = rng.randint(2, 4)
        for j in range(n):
            out.extend(self.sep_item(allow_link, allow_b, allow_i))
            if j < n - 1:
                out.append(self.sep(seps))
        if rng.random() < 0.85:
            out.extend(self.words(rng.randint(1, 2)))
            for _ in range(rng.randint(1, 2)):
                out.append(self.sep(seps))
                out.extend(self.words(1))
        return out

    def plan_line(self):
        """decide whether the physical line about to be generated gets an "apo" element; returns (plan, saved flag)"""
        r = self.rng.random()
        plan = "i" if r < 0.06 else "b" if r < 0.10 else None
        saved = self.noq3
        self.noq3 = saved or plan == "i"
        return plan, saved

    def put_apo(self, inl, planned):
        """put the planned "apo" element at a random top-level position of the inline list `inl` (in place)"""
        plan, saved = planned
        self.noq3 = saved
        if plan is None:
            return inl
        rng = self.rng
        body = self.words(rng.randint(1, 2))
        if rng.random() < 0.25:
            body = [("link", "T" + self.word(), [])]
        e = ("apo", plan, rng.choice(["close", "close", "open"]), body, self.word())
        inl.insert(rng.randint(0, len(inl)), e)
        return inl

    def apo_line(self, *a, **kw):
        planned = self.plan_line()
        return self.put_apo(self.inline(*a, **kw), planned)

    def touch_span(self):
        """bold and italic by apostrophes, the inner span touching an edge of the outer one (runs of five apostrophes)"""
        rng = self.rng
        outer, inner = rng.choice([("b", "i"), ("i", "b")])
        shape = rng.choice(["right", "left", "both", "mid"])
        isp = (inner, "q", self.words(rng.randint(1, 2)))
        if shape == "right":
            body = self.words(rng.randint(1, 2)) + [isp]
        elif shape == "left":
            body = [isp] + self.words(rng.randint(1, 2))
        elif shape == "both":
            body = [isp]
        else:
            body = self.words(1) + [isp] + self.words(1)
        return (outer, "q", body)

    def term(self):
        """term of a one-line definition item: plain, bold, italic, bold-italic, nested styles (quotes or tags), or any inline"""
        rng = self.rng
        r = rng.random()
        if r < 0.15:
            return self.words(rng.randint(1, 2))
        if self.noq3:
            return self.inline(1, allow_ref=False)
        if r < 0.55:
            out = [self.touch_span()]
        elif r < 0.7:
            k, v = rng.choice([("b", "q"), ("i", "q"), ("b", "tag"), ("i", "em"), ("b", "strong"), ("i", "tag")])
            out = [(k, v, self.words(rng.randint(1, 2)))]
        else:
            return self.inline(1, allow_ref=rng.random() < 0.3)
        if rng.random() < 0.4:
            out = self.words(1) + out
        if rng.random() < 0.4:
            out = out + self.words(1)
        return out

    def list_block(self, maxdepth=4):
        rng = self.rng
        lines = []
        prefix = rng.choice("*#:;") if rng.random() < 0.5 else rng.choice("*#")
        for _ in range(rng.randint(1, 6)):
            defn = prefix[-1] == ";" and rng.random() < 0.6
            saved = self.forbid
            if ";" in prefix:
                self.forbid = saved | {":"}
            planned = self.plan_line()
            if defn:
                term, desc = self.term(), self.inline(1, allow_ref=rng.random() < 0.3)
                self.put_apo(rng.choice([term, desc]), planned)
                lines.append((prefix, term, desc))
            else:
                lines.append((prefix, self.put_apo(self.inline(1, allow_ref=rng.random() < 0.3), planned), None))
            self.forbid = saved
            r = rng.random()
            if r < 0.3 and len(prefix) < maxdepth:
                prefix = prefix + rng.choice("*#:" if rng.random() < 0.8 else "*#:;")
            elif r < 0.5 and len(prefix) > 1:
                prefix = prefix[:-1]
            elif r < 0.6:
                prefix = prefix[:-1] + rng.choice("*#:")
        return ("list", lines)

    def table_block(self, depth):
        rng = self.rng
        rows = []
        saved_forbid = self.forbid
        self.forbid = saved_forbid | {"|"}
        for _ in range(rng.randint(1, 3)):
            cells = []
            planned = self.plan_line()          # cells written with || share one physical line
            for _ in range(rng.randint(1, 3)):
                hdr = rng.random() < 0.3
                if depth < 2 and rng.random() < 0.25:
                    body = ("blocks", [self.block(depth + 1, in_cell=True) for _ in range(rng.randint(1, 2))])
                else:
                    body = ("inl", self.inline(1))
                cells.append((hdr, body))
            inl_cells = [body[1] for _h, body in cells if body[0] == "inl"]
            if inl_cells:
                self.put_apo(rng.choice(inl_cells), planned)
            else:
                self.noq3 = planned[1]
            rows.append(cells)
        caption = None
        if self.captions and rng.random() < 0.45:
            caption = (rng.choice(["", "", "", 'align="bottom" | ', 'style="x" | ', "class=c |"]), self.apo_line(1))
        self.forbid = saved_forbid
        if caption is not None:
            return ("table", rows, caption)
        return ("table", rows)

    def styled_run(self):
        """one style span holding k spans of the other style, all with quotes, on one line (k up to 24)"""
        rng = self.rng
        k = rng.choice([2, 5, 9, 13, 16, 17, 18, 20, 24])
        outer, inner = rng.choice([("i", "b"), ("b", "i")])
        body = self.words(1)
        for _ in range(k):
            body.append((inner, "q", self.words(1)))
            body.extend(self.words(1))
        return ("p", [[(outer, "q", body)] + self.words(1)])

    def block(self, depth=0, in_cell=False):
        rng = self.rng
        r = rng.random()
        if r < 0.03 and depth == 0:
            return self.styled_run()
        if r < 0.35:
            return ("p", [self.apo_line() for _ in range(rng.randint(1, 2))])
        if r < 0.6:
            return self.list_block()
        if r < 0.75 and depth < 2:
            return self.table_block(depth)
        if r < 0.85 and not in_cell:
            return ("pre", [self.words(rng.randint(1, 3)) for _ in range(rng.randint(1, 3))])
        return ("p", [self.apo_line()])

    def doc(self):
        rng = self.rng
        blocks = []
        for _ in range(rng.randint(0, 2)):
            blocks.append(self.block())
        level = rng.randint(1, 3)
        for _ in range(rng.randint(0, self.size)):
            blocks.append(("h", level, self.apo_line(1, allow_ref=False)))
            for _ in range(rng.randint(0, 3)):
                blocks.append(self.block())
            level = max(1, min(6, level + rng.choice([-2, -1, 0, 0, 1, 1, 2])))
        if not blocks:
            blocks.append(self.block())
        return blocks


# ------------------------------------------------------------------ serialise

def ser_inline(rng, inl):
    out = []
    glue = True            # no blank in front of the first element
    for i, e in enumerate(inl):
        k = e[0]
        if k == "w":
            s = e[1]
        elif k == "x":
            s = e[1]
            if e[2]:
                glue = True
        elif k == "apo":
            q = "''" if e[1] == "i" else "'''"
            sp = rng.choice(["", "", "", " "])
            if e[2] == "close":
                s = "%s%s%s'%s%s" % (q, ser_inline(rng, e[3]), q, sp, e[4])
            else:
                s = "%s%s'%s%s%s" % (e[4], sp, q, ser_inline(rng, e[3]), q)
        elif k == "b":
            body = ser_inline(rng, e[2])
            s = {"q": "'''%s'''", "tag": "<b>%s</b>", "strong": "<strong>%s</strong>"}[e[1]] % body
        elif k == "i":
            body = ser_inline(rng, e[2])
            s = {"q": "''%s''", "tag": "<i>%s</i>", "em": "<em>%s</em>"}[e[1]] % body
        elif k == "link":
            s = "[[%s|%s]]" % (e[1], ser_inline(rng, e[2])) if e[2] else "[[%s]]" % e[1]
        elif k == "ext":
            s = "[%s %s]" % (e[1], ser_inline(rng, e[2]))
        elif k == "ref":
            s = "<ref>%s</ref>" % ser_inline(rng, e[1])
        elif k == "nslink":
            s = "[[%s%s%s]]" % (":" if e[2] else "", e[1], "|" + ser_inline(rng, e[5]) if e[5] else "")
        if not glue:
            out.append(" ")
        out.append(s)
        glue = k == "x" and e[3]
    return "".join(out)


def ser_block(rng, b, first=False):
    k = b[0]
    if k == "h":
        eq = "=" * b[1]
        sp = rng.choice(["", " "])
        return "%s%s%s%s%s\n" % (eq, sp, ser_inline(rng, b[2]), sp, eq)
    if k == "p":
        return "\n".join(ser_inline(rng, ln) for ln in b[1]) + "\n"
    if k == "list":
        return "".join("%s%s%s%s\n" % (p, rng.choice(["", " "]), ser_inline(rng, inl),
                                       "" if d is None else rng.choice([" : ", " : ", ":", ": ", " :"]) + ser_inline(rng, d)) for p, inl, d in b[1])
    if k == "pre":
        return "".join(" %s\n" % ser_inline(rng, ln) for ln in b[1])
    if k == "table":
        out = ["{|%s\n" % rng.choice(["", ' class="wikitable"', " border=1"])]
        if len(b) > 2 and b[2] is not None:
            out.append("|+%s%s%s\n" % (rng.choice([" ", " ", ""]), b[2][0], ser_inline(rng, b[2][1])))
        for row in b[1]:
            out.append("|-%s\n" % rng.choice(["", "", ' style="x"']))
            newline_style = rng.random() < 0.5
            line = []
            for j, (hdr, body) in enumerate(row):
                mark = "!" if hdr else "|"
                attr = rng.choice(["", "", 'align="left" | '])
                if body[0] == "inl":
                    txt = ser_inline(rng, body[1])
                    same_kind_as_prev = j > 0 and row[j - 1][0] == hdr and row[j - 1][1][0] == "inl"
                    if line and not newline_style and same_kind_as_prev:
                        line.append(" %s%s %s%s" % (mark, mark, attr, txt))
                    else:
                        if line:
                            out.append("".join(line) + "\n")
                        line = ["%s %s%s" % (mark, attr, txt)]
                else:
                    if line:
                        out.append("".join(line) + "\n")
                        line = []
                    out.append("%s%s\n" % (mark, attr.rstrip(" |") + " |" if attr else ""))
                    out.append(ser_blocks(rng, body[1]))
            if line:
                out.append("".join(line) + "\n")
        out.append("|}\n")
        return "".join(out)
    raise ValueError(k)


def ser_blocks(rng, blocks):
    out = []
    prev = None
    for b in blocks:
        # paragraphs need a blank line between them; other block kinds are separated by their own syntax,
        # an extra blank line is an equivalent spelling
        if prev is not None:
            if (prev == "p" and b[0] == "p") or (prev == "list" and b[0] == "list") or (prev == "pre" and b[0] == "pre"):
                out.append("\n")
            elif (prev in ("p",) and b[0] == "pre") or (prev == "pre" and b[0] == "p"):
                out.append("\n")
            elif rng.random() < 0.3:
                out.append("\n")
        out.append(ser_block(rng, b))
        prev = b[0]
    return "".join(out)


def serialise(rng, doc):
    return ser_blocks(rng, doc)


# ------------------------------------------------------------------ denote (Python mirror of coq/C02/Model.v)
# tree = ["L", word, bold, italic]  |  ["N", label, [tree...]]      label = list, e.g. ["sec", 2], ["cell", true], ["link", "T"]

def den_inline(inl, bold, italic):
    out = []
    for e in inl:
        k = e[0]
        if k == "w":
            out.append(["L", e[1], bold, italic])
        elif k == "x":
            out.append(["L", X_TEXT.get(e[1], e[1]), bold, italic])
        elif k == "apo":
            out.extend(den_inline(apo_expand(e), bold, italic))
        elif k == "b":
            out.extend(den_inline(e[2], True, italic))        # styles are leaf attributes, not structure
        elif k == "i":
            out.extend(den_inline(e[2], bold, True))
        elif k == "link":
            out.append(["N", ["link", e[1]], den_inline(e[2], bold, italic) if e[2] else [["L", e[1], bold, italic]]])
        elif k == "ext":
            out.append(["N", ["ext", e[1]], den_inline(e[2], bold, italic)])
        elif k == "ref":
            out.append(["N", ["ref"], den_inline(e[1], bold, italic)])
        elif k == "nslink":
            out.append(["N", nslink_label(e), den_inline(e[5], bold, italic) if e[5] else [["L", e[1], bold, italic]]])
    return out


def nslink_label(e):
    """an article link is labelled like a plain link; every other kind carries its kind and the fully qualified target"""
    return ["link", e[1]] if e[3] == "article" else ["link", e[1], e[3], e[4]]


def apo_expand(e):
    """an "apo" element in terms of the basic grammar: the literal apostrophe is the FIRST one of the run, i.e. it belongs
    to the text in front of the run (MediaWiki Parser::doQuotes: `$arr[$i - 1] .= "'"`)"""
    _k, kind, where, body, word = e
    if where == "close":
        return [(kind, "q", list(body) + [("w", APO)]), ("w", word)]
    return [("w", word), ("w", APO), (kind, "q", list(body))]


KIND = {"*": "ul", "#": "ol", ";": "dt", ":": "dd"}


def _dd(line):
    """splitdl (core.py:393): the description of a line '; term : desc' whose prefix is exactly ';', else None"""
    p, _inl, d = line
    return d if p == ";" else None


def denote_list(lines):
    """Prefix tree of consecutive list lines (core.py:400-542 ParseLines.analyze).  Lines are grouped by their first
    prefix char.  * and #: one list node holds all consecutive lines with that first char; a new item starts at every
    such line that is not swallowed by the previous item (an item swallows the following lines with the same first
    char and a prefix longer than 1).  ; and : every item is its own node."""
    out = []
    i = 0
    n = len(lines)
    while i < n:
        p0 = lines[i][0][0]
        kind = KIND[p0]
        items = []
        while i < n and lines[i][0][0] == p0:
            desc = _dd(lines[i])
            sub = [lines[i]]
            i += 1
            while i < n and lines[i][0][0] == p0 and len(lines[i][0]) > 1:
                sub.append(lines[i])
                i += 1
            if desc is not None:
                # the term keeps the text before the colon; the description node holds the text after it, followed by the
                # sub-lists of the lines the item swallowed (core.py:540-543): everything stays in source order
                out.append(["N", ["dt"], den_inline(sub[0][1], False, False)])
                out.append(["N", ["dd"], den_inline(desc, False, False) + den_item(sub[1:])])
                continue
            body = den_item(sub)
            if p0 in "*#":
                items.append(["N", ["li"], body])
            else:
                out.append(["N", [kind], body])
        if p0 in "*#":
            out.append(["N", [kind], items])
    return out


def den_item(sub):
    """the lines of one item with the first prefix char removed: lines whose prefix is now empty are item text,
    maximal runs of the others are nested lists"""
    rest = [(p[1:], inl, d) for p, inl, d in sub]
    out = []
    j = 0
    while j < len(rest):
        if rest[j][0] == "":
            out.extend(den_inline(rest[j][1], False, False))
            if rest[j][2] is not None:                       # a colon outside a definition term is ordinary text
                out.extend(den_inline(rest[j][2], False, False))
            j += 1
        else:
            k = j
            while k < len(rest) and rest[k][0] != "":
                k += 1
            out.extend(denote_list(rest[j:k]))
            j = k
    return out


def den_block(b):
    k = b[0]
    if k == "p":
        return [["N", ["p"], [t for ln in b[1] for t in den_inline(ln, False, False)]]]
    if k == "list":
        return denote_list(b[1])
    if k == "pre":
        return [["N", ["pre"], [t for ln in b[1] for t in den_inline(ln, False, False)]]]
    if k == "table":
        rows = []
        for row in b[1]:
            cells = []
            for hdr, body in row:
                cells.append(["N", ["cell", bool(hdr)], den_inline(body[1], False, False) if body[0] == "inl" else den_blocks(body[1])])
            rows.append(["N", ["row"], cells])
        if len(b) > 2 and b[2] is not None:
            rows.insert(0, ["N", ["caption"], den_inline(b[2][1], False, False)])
        return [["N", ["table"], rows]]
    raise ValueError(k)


def den_blocks(blocks):
    """Sections: a heading of level L closes every open section of level >= L (core.py:121-127) and opens a new one,
    which swallows the following blocks and every following section of a deeper level."""
    top = []
    stack = []          # [(level, children list of that section)]
    for b in blocks:
        if b[0] == "h":
            while stack and stack[-1][0] >= b[1]:
                stack.pop()
            children = [["N", ["heading"], den_inline(b[2], False, False)]]
            node = ["N", ["sec", b[1]], children]
            (stack[-1][1] if stack else top).append(node)
            stack.append((b[1], children))
        else:
            (stack[-1][1] if stack else top).extend(den_block(b))
    return top


def denote(doc):
    return den_blocks(doc)


def strip_p(trees):
    """equivalent view that ignores paragraph nodes"""
    out = []
    for t in trees:
        if t[0] == "L":
            out.append(t)
        elif t[1] == ["p"]:
            out.extend(strip_p(t[2]))
        else:
            out.append(["N", t[1], strip_p(t[2])])
    return out


def leaves(trees, chain=()):
    """(word, chain of labels, bold, italic) in order"""
    out = []
    for t in trees:
        if t[0] == "L":
            out.append((t[1], chain, t[2], t[3]))
        else:
            out.extend(leaves(t[2], chain + (tuple(t[1]),)))
    return out
