"""Unit-level differential of the AdvancedNode tree API (append_child, remove_child, replace_child, move_to,
copy) on real node objects, and of TreeCleaner.fix_reference_nodes (op "f") on real trees.  stdin: JSON lines {"id", "cells": [[id, cls, par, [kids]], ...], "ops": [[...], ...]}
stdout: JSON lines {"id", "done": k, "status": "OK"|"ERR", "exc": ..., "cells": [[id, cls, par, [kids]], ...]}
ids are 1..n; objects created by copy() are numbered n+1.. in preorder of the copy.  Optional keys of a case: "vlist" {id: attrs}
(node attributes, e.g. a Reference's name / group), "text" (caption of every Text node, default "x")."""
import json
import logging
import sys
import warnings

warnings.simplefilter("ignore")
logging.disable(logging.CRITICAL)

from mwlib.parser import advtree  # noqa: E402
from mwlib.parser.advtree import (Cell, Div, Item, ItemList, Paragraph, Row, Section, Table, Text, Center, Span, Reference)  # noqa: E402
from mwlib.parser.treecleaner import TreeCleaner  # noqa: E402

MK = {1: lambda: Text("x"), 2: Table, 3: Row, 4: Cell, 6: ItemList, 7: Item, 8: Section, 9: Reference, 10: Paragraph, 24: Div, 25: Span,
      26: Center}
CODE = {"Text": 1, "Table": 2, "Row": 3, "Cell": 4, "ItemList": 6, "Item": 7, "Section": 8, "Reference": 9, "Paragraph": 10, "Div": 24,
        "Span": 25, "Center": 26}


def run(case):
    objs = {}
    for i, c, _p, _ks in case["cells"]:
        objs[i] = MK[c]() if c != 1 else Text(case.get("text", "x"))
    for i, attrs in (case.get("vlist") or {}).items():
        objs[int(i)].vlist = dict(attrs)
    for i, _c, p, ks in case["cells"]:
        objs[i].children = [objs[k] for k in ks]
        objs[i].parent = objs[p] if p else None
    rev = {id(o): i for i, o in objs.items()}
    done = 0
    status = "OK"
    exc = None
    for op in case["ops"]:
        try:
            k = op[0]
            if k == "a":
                objs[op[1]].append_child(objs[op[2]])
            elif k == "r":
                objs[op[1]].remove_child(objs[op[2]])
            elif k == "x":
                objs[op[1]].replace_child(objs[op[2]], [objs[j] for j in op[3]])
            elif k == "m":
                objs[op[1]].move_to(objs[op[2]], prefix=bool(op[3]))
            elif k == "f":        # the real pass, on the tree below objs[op[1]]
                TreeCleaner(objs[op[1]], save_reports=False).fix_reference_nodes(objs[op[1]])
            elif k == "c":
                new = objs[op[1]].copy()
                stack = [new]
                while stack:
                    o = stack.pop()
                    if id(o) in rev:
                        continue
                    i = len(objs) + 1
                    objs[i] = o
                    rev[id(o)] = i
                    for ch in reversed(o.children):
                        stack.append(ch)
            done += 1
        except (ValueError, AttributeError) as e:
            status = "ERR"
            exc = type(e).__name__
            break
    cells = []
    for i in sorted(objs):
        o = objs[i]
        p = o.parent
        cells.append([i, CODE[o.__class__.__name__], rev.get(id(p), -1) if p is not None else 0, [rev.get(id(c), -1) for c in o.children]])
    return {"id": case["id"], "done": done, "status": status, "exc": exc, "cells": cells}


for line in sys.stdin:
    line = line.strip()
    if line:
        case = json.loads(line)
        try:
            r = run(case)
        except Exception as e:
            r = {"id": case["id"], "harness_error": "%s: %s" % (type(e).__name__, e)}
        sys.stdout.write(json.dumps(r) + "\n")
sys.stdout.flush()
