"""C01 driver of the real post-processor remove_boilerplate (imports mwlib from the snapshot via PYTHONPATH).

stdin: JSON lines {"id", "raw", "lang"}.  Each text is parsed WITHOUT post-processors (compat.parse_txt, what uparser.parse_string
does before its post-processor loop); the resulting real tree is abstracted to the node kinds of coq/C01/PassesPost.v ("pre"), the real
post_processors.remove_boilerplate is run on the real tree, and its outcome is abstracted the same way ("out": [0, tree code...] or
[1] TypeError / [2] AttributeError / [9] any other exception).  stdout: JSON lines {"id", "pre", "out", "values_attr", "unmodelled"}.
The model is run on "pre" by vt/props/c01.py; the two outcomes must be equal."""
import json
import logging
import sys
import warnings

warnings.simplefilter("ignore")
logging.disable(logging.CRITICAL)

from mwlib.parser import expander  # noqa: E402,F401  (must precede templ.evaluate)
from mwlib import parser  # noqa: E402
from mwlib.parser import post_processors  # noqa: E402
from mwlib.parser.refine import compat  # noqa: E402

try:
    import qs.log
    qs.log.root_logger.disabled = True
except Exception:
    pass

_flags = {"values_attr": 0, "unmodelled": []}


def kind(n):
    """kcode of PassesPost.v"""
    if isinstance(n, parser.TagNode) and n.caption == "div":
        vl = getattr(n, "vlist", None)
        if not isinstance(vl, dict):
            _flags["unmodelled"].append("div without an attribute dict: %r" % (vl,))
            return 10
        if "class" not in vl:
            return 10
        v = vl["class"]
        if isinstance(v, bool) or not isinstance(v, (int, str)):
            _flags["unmodelled"].append("class stored as %s" % type(v).__name__)
            return 10
        if isinstance(v, int):
            return 11
        return 13 if "boilerplate" in v else 12
    if isinstance(n, parser.TagNode):
        return 20
    if n.__class__ == parser.Text:
        return 21
    return 22


def abstract(n):
    """[kcode, [children...]]"""
    if hasattr(n, "values"):
        _flags["values_attr"] += 1          # the model's LAbsent: no tree node has an attribute `values`
    return [kind(n), [abstract(c) for c in n.children]]


def enc(t):
    out = [t[0], len(t[1])]
    for c in t[1]:
        out += enc(c)
    return out


def main():
    for line in sys.stdin:
        line = line.strip()
        if not line:
            continue
        c = json.loads(line)
        _flags["values_attr"] = 0
        _flags["unmodelled"] = []
        res = {"id": c["id"]}
        try:
            art = compat.parse_txt(c["raw"], lang=c.get("lang"))
        except Exception as e:  # noqa: BLE001  (not this tie's business: the search reports it)
            res["skip"] = "%s in parse_txt" % type(e).__name__
            sys.stdout.write(json.dumps(res) + "\n")
            continue
        res["pre"] = abstract(art)
        try:
            post_processors.remove_boilerplate(art, title="t", revision=None, wikidb=None, lang=c.get("lang"))
            res["out"] = [0] + enc(abstract(art))
        except TypeError:
            res["out"] = [1]
        except AttributeError:
            res["out"] = [2]
        except Exception as e:  # noqa: BLE001
            res["out"] = [9]
            res["exc"] = type(e).__name__
        res["values_attr"] = _flags["values_attr"]
        res["unmodelled"] = _flags["unmodelled"][:3]
        sys.stdout.write(json.dumps(res) + "\n")
        sys.stdout.flush()


if __name__ == "__main__":
    main()
