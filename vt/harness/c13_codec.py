"""Token protocol of ocaml/c13/driver.ml <-> the tagged plain form of vt/harness/c13_impl.py."""
import json


def enc_str(s):
    return "%d %s" % (len(s), " ".join(str(ord(c)) for c in s)) if s else "0"


def enc_kvs(d):
    # the model's maps are key-sorted (Python str order = code-point lexicographic = scmp)
    return " ".join(["%d" % len(d)] + [enc_str(k) + " " + enc_plain(d[k]) for k in sorted(d)])


def enc_plain(v):
    """tagged plain form -> tokens"""
    if v is None:
        return "N"
    if v is True:
        return "T"
    if v is False:
        return "F"
    if isinstance(v, int):
        return "I %d" % v
    if isinstance(v, str):
        return "S " + enc_str(v)
    if isinstance(v, list):
        if v[0] == "O":
            return "O %s %s" % (enc_str(v[1]), enc_kvs(v[2]))
        if v[0] == "D":
            return "D " + enc_kvs(v[1])
        if v[0] == "L":
            return " ".join(["L %d" % len(v[1])] + [enc_plain(x) for x in v[1]])
    raise TypeError("cannot encode %r" % (v,))


def plain_of_json(j):
    """ordinary parsed JSON -> tagged plain form, dict keys SORTED (the model's maps are key-sorted)"""
    if isinstance(j, dict):
        return ["D", {k: plain_of_json(j[k]) for k in sorted(j)}]
    if isinstance(j, list):
        return ["L", [plain_of_json(x) for x in j]]
    if isinstance(j, float):
        raise TypeError("floats are not modelled")
    return j


def json_of_plain(p):
    if isinstance(p, list):
        if p[0] == "D":
            return {k: json_of_plain(v) for k, v in p[1].items()}
        if p[0] == "L":
            return [json_of_plain(v) for v in p[1]]
        raise TypeError("not a JSON value: %r" % (p[:2],))
    return p


class Reader:
    def __init__(self, line):
        self.t = line.split()
        self.i = 0

    def next(self):
        x = self.t[self.i]
        self.i += 1
        return x

    def str(self):
        k = int(self.next())
        return "".join(chr(int(self.next())) for _ in range(k))

    def kvs(self):
        d = {}
        for _ in range(int(self.next())):
            k = self.str()
            d[k] = self.val()
        return d

    def val(self):
        t = self.next()
        if t == "N":
            return None
        if t == "T":
            return True
        if t == "F":
            return False
        if t == "I":
            return int(self.next())
        if t == "S":
            return self.str()
        if t == "L":
            return ["L", [self.val() for _ in range(int(self.next()))]]
        if t == "D":
            return ["D", self.kvs()]
        if t == "O":
            c = self.str()
            return ["O", c, self.kvs()]
        if t == "E":
            return ["E"]
        raise ValueError("bad token %r" % t)


def dec_plain(line):
    return Reader(line).val()


def canon(p):
    """order-insensitive, type-strict text of a tagged plain value"""
    return json.dumps(p, sort_keys=True, ensure_ascii=True)
