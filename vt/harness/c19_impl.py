"""Drives the real nserve.Application.do_render_status of the snapshot.

mode `snaps`  : stdin JSON lines {"c","w","render":snap|null,"makezip":snap|null} -> the response with a
                stub queue proxy that serves exactly these snapshots.
mode `hist`   : stdin JSON lines, each a history {"id", "ops":[...]} run against a real qs.jobs.workq
                behind qs.qserve.QPlugin (in-process proxy instead of the TCP RPC client; time.time of
                qs.jobs patched to a counter).  After every op: the snapshots of all tracked job ids, the
                status response for every (collection, writer), and the live job attributes.
                The op ["istatus", c, w, {"k": op, ...}] is ONE do_render_status(c, w) request during which other
                clients of the queue act: before the k-th qinfo RPC of that request (k = 1, 2, ..; every RPC is a
                scheduling point of the real gevent server) the given queue op is applied.  The step then carries
                "inter": the response, the (jobid, snapshot) pairs the request actually read, and the live
                (render job, makezip job) attributes at the start of the request and after every injected op.
                Ops whose k exceeds the number of qinfo calls the request made are applied right after the request
                (so an interleaved history has the same effect on the queue as the plain one).
                WORKER CONNECTIONS: the queue server has one QPlugin handler object per client connection; a handler
                remembers the jobs pulled through it (running_jobs) and its shutdown() -- run by the RPC server when that
                connection closes -- reschedules those that are not finished.  Connection 0 is the web server's (nserve:
                do_render / render_status / kill); ["pull", channel, k] pulls through connection k (default 0),
                ["finish", jid, result, error, k] finishes through connection k (default 0), ["disconnect", k] closes
                connection k (QPlugin.shutdown of its handler) and opens a fresh one in its place (the worker
                reconnects).  A queue-server restart closes every connection without a shutdown (the process is gone).
                JUDGED JOB: "live" is the state of the job the id stands for -- the LATEST incarnation registered under
                the id (job objects are told apart by identity; a new incarnation is created by qadd on an absent id or
                on a killed one), absent once that incarnation was seen removed from the queue's table.  When the
                queue's id->job table serves another (earlier) incarnation instead, the step carries it under "stale".
mode `writers`: the writer table the running code has.
mode `unicode`: exhaustive pass over all 0x110000 code points: str.isspace table, the NFKD hypothesis of
                the Coq theorem, and (argv[2] = step) get_content_disposition on every step-th code point.
"""
import json
import logging
import sys
import types
import unicodedata
import warnings

warnings.simplefilter("ignore")
logging.disable(logging.CRITICAL)
import qs.log  # noqa: E402

qs.log.root_logger.disabled = True
from qs import jobs, qserve  # noqa: E402
from mwlib.core import nserve  # noqa: E402

mode = sys.argv[1]


class Sink:
    def write(self, *_a):
        pass

    def flush(self):
        pass


def call_status(app, c, w):
    try:
        return {"ret": app.do_render_status(c, {"writer": w} if w is not None else {})}
    except Exception as e:  # the WSGI dispatcher turns these into an error response
        return {"exc": type(e).__name__}


class StubProxy:
    """What rpcclient.ServerProxy is to do_render_status: .qinfo(jobid=...)."""

    def __init__(self, table):
        self.table = table
        self.asked = []

    def qinfo(self, jobid):
        self.asked.append(jobid)
        return self.table.get(jobid)


def run_snaps():
    out = sys.stdout
    for line in sys.stdin:
        line = line.strip()
        if not line:
            continue
        case = json.loads(line)
        c, w = case["c"], case["w"]
        table = {}
        if case["render"] is not None:
            table["%s:render-%s" % (c, w)] = case["render"]
        if case["makezip"] is not None:
            table["%s:makezip" % c] = case["makezip"]
        # decoys: jobs of other writers / collections that are finished must never matter
        for k, v in case.get("decoys", {}).items():
            table.setdefault(k, v)
        app = nserve.Application()
        app.qserve = StubProxy(table)
        r = call_status(app, c, w)
        r["asked"] = app.qserve.asked
        out.write(json.dumps(r) + "\n")
    out.flush()


class WorkqProxy:
    """In-process stand-in for rpcclient.ServerProxy: forwards to the real QPlugin methods and
    passes arguments/results through JSON like the RPC layer does."""

    def __init__(self, plugin):
        self.plugin = plugin          # callable: the handler of the web server's connection (re-created on restart)

    def qinfo(self, jobid):
        return json.loads(json.dumps(self.plugin().rpc_qinfo(jobid)))

    def qadd(self, **kw):
        return self.plugin().rpc_qadd(**json.loads(json.dumps(kw)))


class InterleavingProxy:
    """The proxy of ONE status request: before its k-th qinfo call, `before(k)` lets another client of the queue
    act (the RPC is a scheduling point).  Records what the request read."""

    def __init__(self, proxy, before):
        self.proxy = proxy
        self.before = before
        self.reads = []

    def qinfo(self, jobid):
        self.before(len(self.reads) + 1)
        res = self.proxy.qinfo(jobid)
        self.reads.append([jobid, res])
        return res


def run_hist():
    real_stdout = sys.stdout
    sys.stdout = Sink()         # qs / nserve print
    now = [1000]
    jobs.time = types.SimpleNamespace(time=lambda: now[0])
    for line in sys.stdin:
        line = line.strip()
        if not line:
            continue
        h = json.loads(line)
        now[0] = 1000
        q = [jobs.workq()]      # q[0]: the queue of the (possibly restarted) queue server

        class Handler(qserve.QPlugin):
            workq = q[0]

        conns = {0: Handler()}    # connection index -> its handler object; 0 = the web server's connection

        def conn(k):
            if k not in conns:
                conns[k] = Handler()
            return conns[k]

        proxy = WorkqProxy(lambda: conn(0))
        colls = h["collections"]
        writers = h["writers"]
        tracked = []
        for c in colls:
            tracked.append("%s:makezip" % c)
            for w in writers:
                tracked.append("%s:render-%s" % (c, w))

        def attrs(j):
            return None if j is None else json.loads(json.dumps(
                {"done": j.done, "error": j.error, "info": j.info, "result": j.result}))

        # incarnations of every tracked id: the job objects seen registered under it, in order of first appearance
        # (strong references: identities stay distinct), and whether the latest one was seen removed since
        incarn = {}
        gone = {}

        def observe():
            for jid in tracked:
                cur = q[0].id2job.get(jid)
                lst = incarn.setdefault(jid, [])
                if cur is None:
                    if lst:
                        gone[jid] = True
                elif not any(cur is o for o in lst):
                    lst.append(cur)
                    gone[jid] = False

        def real_job(jid):
            """The job the id stands for: its latest incarnation while registered (by whatever table entry)."""
            cur = q[0].id2job.get(jid)
            lst = incarn.get(jid) or []
            if cur is None or not lst or gone.get(jid):
                return None
            return lst[-1]

        def live_of(jid):
            observe()
            return attrs(real_job(jid))

        def stale_of(jid):
            cur = q[0].id2job.get(jid)
            return None if cur is None or cur is real_job(jid) else attrs(cur)

        def apply_plain(op, applied):
            """One queue op of another client; appends the model-level ops that were issued to `applied`
            (the model mirrors a KeyError as a no-op).  Returns the name of the exception raised, if any."""
            k = op[0]
            wq = q[0]
            try:
                if k == "render":            # the real do_render creates both jobs
                    _, c, w = op
                    app = nserve.Application()
                    app.qserve = proxy
                    r = app.do_render(c, {"writer": w}, is_new=False)
                    if "error" not in r:
                        applied += [["J", now[0], "%s:makezip" % c, ["P", 20 * 60, None]],
                                    ["J", now[0], "%s:render-%s" % (c, w), ["P", 20 * 60, None]]]
                elif k == "push":
                    _, jid, channel, timeout, ttl = op
                    applied.append(["J", now[0], jid, ["P", timeout if timeout is not None else 120, ttl]])
                    conn(0).rpc_qadd(channel=channel, jobid=jid, timeout=timeout, ttl=ttl)
                elif k == "pull":
                    channel = op[1]
                    cq = wq.channel2q.get(channel, [])
                    if any(not j.done for j in cq):     # never block
                        got = conn(op[2] if len(op) > 2 else 0).rpc_qpull([channel])
                        applied.append(["J", now[0], got["jobid"], ["U"]])
                elif k == "disconnect":                 # the connection closes: rpcserver calls the handler's shutdown();
                    conn(op[1]).shutdown()              # rescheduling an unfinished job changes no snapshot (no model op)
                    conns[op[1]] = Handler()
                elif k == "setinfo":
                    _, jid, info = op
                    applied.append(["J", now[0], jid, ["I", info]])
                    conn(0).rpc_qsetinfo(jid, info)
                elif k == "finish":
                    _, jid, result, error = op[:4]
                    applied.append(["J", now[0], jid, ["F", result, error]])
                    conn(op[4] if len(op) > 4 else 0).rpc_qfinish(jid, result=result, error=error)
                elif k == "kill":
                    _, jid = op
                    applied.append(["J", now[0], jid, ["K"]])
                    conn(0).rpc_qkill([jid])
                elif k == "dropmark":
                    _, jid = op
                    applied.append(["J", now[0], jid, ["M"]])
                    conn(0).rpc_qdrop([jid])
                elif k == "wait":
                    _, jid = op
                    j = wq.id2job.get(jid)
                    if j is None or j.done:             # never block
                        applied.append(["J", now[0], jid, ["W"]])
                        conn(0).rpc_qwait([jid])
                elif k == "tick":                       # clock advances, handletimeouts runs
                    now[0] += op[1]
                    applied.append(["T", now[0]])
                    wq.handletimeouts()
                elif k == "dropdead":                   # clock advances, watchdog runs
                    now[0] += op[1]
                    applied.append(["D", now[0]])
                    wq.dropdead()
                elif k == "restart":                    # the queue server is restarted without a data dir: every job is
                    q[0] = jobs.workq()                 # gone, the nserve process (and whatever it remembers) lives on
                    Handler.workq = q[0]
                    conns.clear()                       # every connection died with the server process (no shutdown())
                    incarn.clear()
                    gone.clear()
                    applied.append(["R"])
                else:
                    raise RuntimeError("unknown op %r" % (op,))
            except KeyError:
                observe()
                return "KeyError"
            observe()
            return None

        steps = []
        for op in h["ops"]:
            applied = []
            raised = None
            inter = None
            if op[0] == "istatus":
                _, c, w, inj = op
                rid, mid = "%s:render-%s" % (c, w), "%s:makezip" % c
                pending = {int(k): v for k, v in inj.items()}
                states = [[live_of(rid), live_of(mid)]]     # at the start of the request
                fired = []

                def before(k, pending=pending, states=states, fired=fired, rid=rid, mid=mid, applied=applied):
                    o = pending.pop(k, None)
                    if o is not None:
                        if o[0] == "istatus":
                            raise RuntimeError("nested istatus")
                        apply_plain(o, applied)
                        fired.append(k)
                        states.append([live_of(rid), live_of(mid)])

                app = nserve.Application()
                ip = InterleavingProxy(proxy, before)
                app.qserve = ip
                resp = call_status(app, c, w)
                inter = {"resp": resp, "reads": ip.reads, "states": states, "fired": fired, "late": sorted(pending)}
                for k in sorted(pending):                   # the request was over before its k-th RPC: plain ops after it
                    apply_plain(pending[k], applied)
            else:
                raised = apply_plain(op, applied)
            snaps = {jid: proxy.qinfo(jid) for jid in tracked}
            live = {jid: live_of(jid) for jid in tracked}
            status = {}
            for c in colls:
                for w in writers:
                    app = nserve.Application()
                    app.qserve = proxy
                    status["%s|%s" % (c, w)] = call_status(app, c, w)
            st = {"op": op, "applied": applied, "raised": raised, "snaps": snaps, "live": live, "status": status}
            stale = {jid: stale_of(jid) for jid in tracked if stale_of(jid) is not None}
            if stale:
                st["stale"] = stale
            if inter is not None:
                st["inter"] = inter
            steps.append(st)
        real_stdout.write(json.dumps({"id": h["id"], "steps": steps}) + "\n")
    real_stdout.flush()


# contexts a code point is placed in ("@" = the code point) for the per-code-point filename pass
CD_CONTEXTS = ["a@b @", "@", "x@y", "@@ z", "p q@"]


def run_unicode():
    step = int(sys.argv[2])
    control = set(range(0, 32)) | set(range(127, 160))
    spaces = [c for c in range(0x110000) if chr(c).isspace()]
    bad_nfkd = []
    ascii_from = 0
    for c in range(0x110000):
        if c in control:
            continue
        d = unicodedata.normalize("NFKD", chr(c))
        if any(ord(x) in control for x in d):
            bad_nfkd.append(c)
        if any(ord(x) < 128 for x in d):
            ascii_from += 1
    # NFKD of a string introduces no character that the decomposition of one of its characters lacks
    # (canonical reordering only permutes): checked on strings of adjacent code points
    bad_str = []
    for c in range(0, 0x110000 - 3, 977):
        s = "".join(chr(x) for x in (c, c + 1, c + 2) if not (0xD800 <= x <= 0xDFFF))
        have = set(unicodedata.normalize("NFKD", s))
        allowed = set()
        for ch in s:
            allowed |= set(unicodedata.normalize("NFKD", ch))
        if not have <= allowed:
            bad_str.append(c)
    # every code point whose compatibility decomposition contains an ASCII character: these are the ones that
    # reach the ASCII filename at all, among them (`special`) those that decompose to a non-alphanumeric ASCII
    # character (the separator class of the header is a subset) -- computed from unicodedata, never listed by hand
    special, ascii_cps = [], []
    for c in range(0x110000):
        if c in control or 0xD800 <= c <= 0xDFFF:
            continue
        d = unicodedata.normalize("NFKD", chr(c))
        if any(ord(x) < 128 for x in d):
            ascii_cps.append(c)
            if any(not x.isalnum() for x in d if ord(x) < 128):
                special.append(c)
    # code points a transliteration to ASCII would plausibly spell with a separator (same definition as
    # vt/props/c19.py translit_cps; the check compares the two sets)
    sep_names = ("SPACE", "SEMICOLON", "COLON", "QUOTATION", "QUOTE", "APOSTROPHE", "COMMA", "PRIME")
    translit = []
    for c in range(128, 0x110000):
        if c in control or 0xD800 <= c <= 0xDFFF:
            continue
        cat = unicodedata.category(chr(c))
        if cat[0] in "PZ" or cat in ("Sk", "Lm") or any(x in unicodedata.name(chr(c), "") for x in sep_names):
            translit.append(c)
    cds = []
    todo = [(c, CD_CONTEXTS[0]) for c in range(0, 0x110000, step)]
    todo += [(c, ctx) for c in ascii_cps for ctx in CD_CONTEXTS]
    todo += [(c, ctx) for c in translit for ctx in CD_CONTEXTS]
    seen = set()
    for c, ctx in todo:
        if c in control or 0xD800 <= c <= 0xDFFF or (c, ctx) in seen:
            continue
        seen.add((c, ctx))
        name = ctx.replace("@", chr(c))
        try:
            cds.append([c, ctx, nserve.get_content_disposition(name, "pdf")])
        except Exception as e:
            cds.append([c, ctx, "EXC " + type(e).__name__])
    sys.stdout.write(json.dumps({"spaces": spaces, "bad_nfkd": bad_nfkd, "bad_str": bad_str, "ascii_from": ascii_from,
                                 "unidata_version": unicodedata.unidata_version, "cds": cds, "special": special, "translit": translit,
                                 "runtime_writers": {k: [v.file_extension, v.content_type, v.name]
                                                     for k, v in nserve.name2writer.items()}}) + "\n")


if mode == "snaps":
    run_snaps()
elif mode == "hist":
    run_hist()
elif mode == "unicode":
    run_unicode()
elif mode == "writers":
    sys.stdout.write(json.dumps({k: [v.file_extension, v.content_type, v.name] for k, v in nserve.name2writer.items()}) + "\n")
else:
    sys.exit("unknown mode")
