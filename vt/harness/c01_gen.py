"""C01 input generator (pure Python, no mwlib import): grammar-based and mutation-based strings over
the full wikitext alphabet, template universes, and a syntactic nesting measure.

Everything is driven by the `random.Random` handed in, so a fixed VERIF_SEED gives the same inputs."""
import re

LANGS = ["de", "en", "es", "fr", "it", "ja", "nl", "no", "pl", "pt", "simple", "sv"]

# HTML-ish tags the scanner's CompatScanner lets through (utoken.py allowed_tags) + table tags
HTML_TAGS = ["abbr", "b", "big", "blockquote", "br", "center", "cite", "code", "del", "div", "em", "font",
             "h1", "h2", "h3", "h4", "h5", "h6", "hr", "i", "index", "inputbox", "ins", "kbd", "li", "ol", "p",
             "references", "rss", "s", "small", "span", "strike", "strong", "sub", "sup", "caption",
             "table", "td", "th", "tr", "tt", "u", "ul", "var", "dl", "dt", "dd", "mapframe", "startfeed", "endfeed"]
# extension tags replaced by uniq markers (uniq.py) + a sample of the tagext registry
EXT_TAGS = ["ref", "gallery", "math", "source", "timeline", "imagemap", "poem", "nowiki", "pre", "pages",
            "syntaxhighlight", "rot13", "idl", "rdf", "time", "hiero", "section", "listing", "see", "buy", "sleep",
            "chem", "graph", "templatestyles", "categorytree"]
ATTRS = ["", ' style="display:inline"', ' style="display:block"', ' class="x"', ' name="n1"', " name=n1", ' style="',
         " =", ' a="b" c=\'d\' e=f', ' style="color:red;display: Block"', " lang=python", " enclose=none", ' from="1" to="3"',
         ' from="A" to="B" index="I"', " colspan=2", ' rowspan="x"', " style=x:y;;:", ' group="g"', " /", ' x="&#99999999999;"',
         ' style="width:1e999px"', " 0=1", ' align="right"', " width=100%",
         ' title="\x7fUNIQ-ref-7-fedcba9876543210-QINU\x7f"', " class=\x7fUNIQ-nowiki-0-0123456789abcdef-QINU\x7f", " id='\x7fUNIQ-ref-1-0123456789abcdef-QINU\x7f'"]
ENTITIES = ["&amp;", "&lt;", "&nbsp;", "&bogus;", "&;", "&#65;", "&#x41;", "&#X41;", "&#0;", "&#x0;", "&#-1;", "&#x110000;",
            "&#1114112;", "&#99999999999;", "&#xFFFFFFFFF;", "&#xD800;", "&#55296;", "&#x;", "&#;", "&#x1F600;", "&#12345678;",
            "&#9999999999999999999999999999;", "&#x-1;", "&# 1;", "&#1_0;", "&#x1_0;", "&#٣;", "&#+1;", "&#xg;", "&#10;", "&#13;",
            "&#x7f;", "&#127;", "&zwnj;", "&#8206;"]
MARKUP = ["{|", "|}", "|-", "|+", "||", "!!", "|", "!", "[[", "]]", "[", "]", "''", "'''", "''''", "'''''", "''''''", "'",
          "=", "==", "===", "======", "=======", "\n", "\n\n", "\n \n", "\n ", " ", "*", "#", ":", ";", "*#:;", "----", "-----",
          "{{", "}}", "{{{", "}}}", "{{{1}}}", "{{{1|d}}}", "<", ">", "</", "/>", "<!--", "-->", "<!-- c -->", "~~~~", "\t", "\r", "\r\n",
          "__TOC__", "__NOTOC__", "__FORCETOC__", "__NOEDITSECTION__", "__START__", "__END__",
          "http://x.org/a?b=c&d", "https://x.org", "[http://x.org]", "[http://x.org label]", "[https://x.org/''a'' b]",
          "mailto:a@b.org", "[mailto:a@b.org m]", "irc://x.org/c", "news:a.b", "ftp://x.org/f", "[//x.org/p rel]", "[ftp://x y]",
          "http://", "[http://", "[[http://x.org]]", "[[http://x.org|l]]", "ISBN 3-16-148410-0", "RFC 123",
          "\x7fUNIQ-ref-0-0123456789abcdef-QINU\x7f", "\x7fUNIQ-", "-QINU\x7f", "", "\x7f",
          "\x7fUNIQ-ref-7-fedcba9876543210-QINU\x7f", "\x7fUNIQ-nowiki-1-0123456789abcdef-QINU\x7f", "\x7fUNIQ-nowiki-0-a-QINU\x7f"]
LINKS = ["[[A]]", "[[A|b]]", "[[A|]]", "[[|b]]", "[[:A]]", "[[/sub]]", "[[/sub/]]", "[[../]]", "[[A#s|b]]", "[[#s]]",
         "[[Bild:x.jpg]]", "[[Image:x.png|thumb|100px|cap]]", "[[File:x.svg|thumb|left|200x100px|alt=a|link=B|''cap'' [[C]]]]",
         "[[Image:x.png|frame|right|upright=1.5|x]]", "[[File:x.png|border|frameless|upright|center|none|1e5px|xpx|100xpx]]",
         "[[Kategorie:K]]", "[[Category:K|s]]", "[[:Category:K]]", "[[en:X]]", "[[:en:X]]", "[[fr:]]", "[[wikt:w]]",
         "[[wikipedia:de:X]]", "[[Vorlage:T]]", "[[Template:T]]", "[[Special:S]]", "[[Media:x.ogg]]", "[[Diskussion:D]]",
         "[[‎A‏]]", "[[ ]]", "[[]]", "[[:]]", "[[::]]", "[[A\nB]]", "[[A|b\nc]]", "[[A|[[B]]]]", "[[Image:x.jpg|[[B|c]]|[http://x y]]]",
         "[[画像:x.jpg|サムネイル]]", "[[Fichier:x.png|vignette|gauche]]", "[[Plik:x.png|mały]]", "[[Immagine:x.png|miniatura]]",
         "[[Archivo:x.png|miniaturadeimagen]]", "[[Bestand:x.png|miniatuur]]", "[[Fil:x.png|miniatyr]]", "[[Ficheiro:x.png|miniaturadaimagem]]"]
TEMPL_CALLS = ["{{a}}", "{{b|x}}", "{{c|1=y|n=z}}", "{{d}}", "{{e|{{a}}}}", "{{rec}}", "{{nosuch}}", "{{:Main page}}", "{{a|", "{{#if:x|y|z}}",
               "{{#if:|y|{{a}}}}", "{{#ifeq:a|b|c|d}}", "{{#switch:x|x=1|y=2|#default=3}}", "{{#expr:1+2*3}}", "{{#expr:1/0}}", "{{#expr:(}}",
               "{{#tag:ref|inner|name=n}}", "{{#tag:math|x^2}}", "{{#tag:gallery|Image:x.jpg}}", "{{#tag:nowiki|''x''}}", "{{#time:Y}}",
               "{{lc:ABC}}", "{{uc:abc}}", "{{ucfirst:abc}}", "{{padleft:x|5|0}}", "{{PAGENAME}}", "{{NAMESPACE}}", "{{FULLPAGENAME}}",
               "{{SERVER}}", "{{urlencode:a b}}", "{{anchorencode:a b}}", "{{ns:1}}", "{{ns:Image}}", "{{fullurl:X|a=b}}", "{{localurl:X}}",
               "{{CURRENTYEAR}}", "{{REVISIONID}}", "{{NUMBEROFARTICLES}}", "{{DEFAULTSORT:x}}", "{{DISPLAYTITLE:''t''}}", "{{int:x}}",
               "{{subst:a}}", "{{msg:a}}", "{{!}}", "{{=}}", "{{#titleparts:a/b/c|1|2}}", "{{#ifexist:X|y|n}}", "{{#iferror:{{#expr:1/0}}|e|ok}}",
               "{{#language:de}}", "{{formatnum:1234.5}}", "{{plural:2|a|b}}", "{{grammar:x|y}}", "{{#rel2abs:../x}}", "{{#lst:A|s}}"]
CONTROL = ["\x00", "\x01", "\x08", "\x0b", "\x0c", "\x1b", "\x1f", "\x7f", "\x85", "\xa0", " ", " ", "‎", "‏",
           "‮", "﻿", "�", "￿", "", "\U0001F600", "\U00010000", "\U0010FFFF", "\U000E0001", "á", "١", "ß", "İ", "ǅ"]
WORDS = ["a", "b", "foo", "Bar", "x y", "1", "42", "ä", "日本", "Foo bar baz", "text", ".", ",", "-", "a=b", "a:b", "a|b", "a!b", "x.jpg", "100px", "thumb"]

IMAGEMAP_BODIES = ["\nImage:x.jpg|100px\nrect 0 0 10 10 [[A]]\ncircle 5 5 3 [[B|b]]\npoly 0 0 1 1 2 0 [[C]]\ndefault [[D]]\ndesc bottom-left\n",
                   "Image:x.jpg", "\n", "rect 0 0 [[A]]", "\nImage:x.jpg\nrect a b c d [[A]]\n", "\nImage:x.jpg\npoly 1 [[A]]\n# c\n",
                   "\nImage:x.jpg\ncircle 99999999999999999999 1 1 [[A]]\n", "\nImage:x.jpg\ndefault\ndesc none\n", "\nx\nrect 1 2 3 4 [http://x y]\n",
                   "\nImage:x.jpg|thumb|''c''\nrect 1 2 3 4 5 [[A]]\n\x00"]
TIMELINE_BODIES = ["\nImageSize = width:100 height:100\nPlotArea = left:10\nPeriod = from:0 till:10\nTimeAxis = orientation:horizontal\n", "", "x", "\x00\n", "{{a}}"]
GALLERY_BODIES = ["\nImage:x.jpg|cap ''i''\nBild:y.png\nnot an image\n[[A]]\n", "\n|\n", "\n]]\n", "\n[[\n", "\nImage:x.jpg|[[A|b]] {{a}}\n", "\n:x\n", "\n\x7f\n",
                  "\nFile:x|thumb|<ref>r</ref>\n", "\nImage:a]][[Image:b\n", "\nen:X\n", "\n/sub\n"]
MATH_BODIES = ["x^2", "\\frac{1}{2}", "", "\\", "{", "<", "&#99999999999;", "\n"]
POEM_BODIES = ["\nline1\n line2\n\n:line3\n", "", " ", "\n\n\n", "* a\n# b\n{|\n|x\n|}", "''a\n'''b", "<ref>x</ref>", "{{a}}"]
SOURCE_BODIES = ["print('x')", "\n<b>\n", "", "&amp;", "{{a}}", "\x00"]
PAGES_ATTRS = [' from="1" to="3" index="X"', ' from="a" to="b"', ' from=3 to=1', ' from="99999999999999999999" to="1"', " from=1", "", ' from="1" to="2000"', ' from=1 to=300000 index=I']

TEMPLATE_UNIVERSES = [
    None,
    {},
    {"a": "A-text", "b": "''{{{1}}}''", "c": "{{{1|}}} {{{n}}}", "d": "* i1\n* i2\n", "e": "[[{{{1}}}]]", "rec": "{{rec}}"},
    {"a": "{|\n|-\n| {{{1|c}}}\n|}", "b": "<ref>{{{1}}}</ref>", "c": "== {{{1}}} ==\n", "d": "{{a}}{{a}}", "e": "<div>", "rec": "x{{rec|{{rec}}}}"},
    {"a": "</div>", "b": "|}", "c": "{|", "d": "]]", "e": "[[", "rec": "{{d}}{{e}}"},
    {"a": "<gallery>\nImage:x.jpg|{{{1}}}\n</gallery>", "b": "<imagemap>\nImage:x.jpg\nrect 0 0 1 1 [[{{{1}}}]]\n</imagemap>",
     "c": "<poem>\n{{{1}}}\n {{{n}}}\n</poem>", "d": "<timeline>\n{{{1}}}\n</timeline>", "e": "<pages from={{{1}}} to=2 index=I />", "rec": "<ref>{{rec}}</ref>",
     "Page:I/1": "p1 {{a}}", "Page:I/2": "p2"},
    {"a": "&#99999999999;", "b": "\x00{{{1}}}\x7f", "c": "'''''{{{1}}}''", "d": "\n\n\n", "e": "{{{{{1}}}}}", "rec": "{{e|rec}}",
     "MediaWiki:x": "m"},
    {"a": "#REDIRECT [[b]]", "b": "{{#if:{{{1|}}}|{{b}}|<b>}}", "c": "<nowiki>{{{1}}}</nowiki>", "d": "<includeonly>i</includeonly><noinclude>n</noinclude><onlyinclude>o</onlyinclude>",
     "e": "{{#switch:{{{1}}}|a={{a}}|#default={{d}}}}", "rec": "{{#tag:ref|{{rec}}}}"},
]


# ---- attribute values: the number-like corner of Unicode (parse_params hands every attribute value except style to int())
NUM_ASCII = ["0", "1", "7", "12", "007", "100", "9" * 30]
# str.isdigit() but not str.isdecimal(): int() rejects them
NUM_DIGIT_ONLY = ["²", "³", "¹", "⁰", "⁴", "₂", "①", "⑨", "⓪", "⒈", "❶", "፩",
                  "፫", "\U00010a40", "\U0001f101"]
# decimal digits of other scripts (incl. non-BMP): int() accepts them
NUM_DECIMAL = ["٣", "۴", "३", "１", "\U0001d7ce", "\U00011066", "߁", "๓"]
# numeric but not digits: fractions, roman / ideographic / circled numbers
NUM_OTHER = ["½", "¼", "Ⅷ", "ↂ", "〇", "五", "൰", "\U00010107", "㊿", "⅓"]
NUM_CHARS = NUM_ASCII[:3] + NUM_DIGIT_ONLY + NUM_DECIMAL + NUM_OTHER
NUM_SIGNS = ["", "", "+", "-", "−", "±", "﹣", "－", "＋", "+-", "--"]
NUM_SPACES = ["", "", " ", "\t", "\xa0", " ", "　", "​", "\n", "\x0c", "\x1f", "\x85", " "]
NUM_SUFFIX = ["", "", "", "%", "px", "em", ".5", "e3", "_0", ",0", "x", "_", "#", ":"]
ATTR_NAMES = ["title", "id", "class", "name", "width", "height", "colspan", "rowspan", "align", "border", "start", "value", "size",
              "cellpadding", "group", "from", "to", "lang", "widths", "perrow", "Style", "ä", "x1"]


def num_value(rng):
    """sign? number-like chars{1..3} suffix?, with whitespace variants around / after the sign"""
    pool = rng.choice([NUM_CHARS, NUM_DIGIT_ONLY, NUM_DECIMAL, NUM_OTHER, NUM_ASCII])
    body = "".join(rng.choice(pool if rng.random() < 0.8 else NUM_CHARS) for _ in range(rng.choice([1, 1, 1, 2, 3])))
    return (rng.choice(NUM_SPACES) + rng.choice(NUM_SIGNS) + (rng.choice(NUM_SPACES) if rng.random() < 0.1 else "") + body
            + rng.choice(NUM_SUFFIX) + rng.choice(NUM_SPACES))


def quote_value(v, q):
    """q: 0 = double quotes, 1 = single quotes, 2 = unquoted (the regex then takes the [\\w%:#]+ prefix of the value)"""
    if q == 0:
        return '"%s"' % v.replace('"', "")
    if q == 1:
        return "'%s'" % v.replace("'", "")
    return v


def num_attr(rng, name=None):
    if name is None:
        # the standard names, or a name the sources look up by name (READ_NAMES is set per run from an ast scan of the snapshot)
        name = rng.choice(ATTR_NAMES if (not READ_NAMES or rng.random() < 0.5) else READ_NAMES)
    return " %s%s=%s%s" % (name, rng.choice(["", "", " "]), rng.choice(["", "", " "]),
                           quote_value(num_value(rng), rng.randrange(3)))


# every construct whose attributes reach parse_params (utoken._analyze_html_tag, the four table modifier parsers, ParseUniq) or whose
# option values are parsed as numbers; %(a)s = attribute string (leading space), %(v)s = bare value
ATTR_CONTEXTS = [
    ("title", "a <span%(a)s>b</span> c"), ("id", "<div%(a)s>x</div>"), ("value", "<ol%(a)s><li%(a)s>x</li></ol>"), ("size", "<font%(a)s>x</font>"),
    ("colspan", "<table%(a)s><tr%(a)s><td%(a)s>x</td><th%(a)s>y</th></tr></table>"), ("clear", "x<br%(a)s/>y"),
    ("width", "{|%(a)s\n|-\n| c\n|}"), ("class", "{|\n|-%(a)s\n| c\n|}"), ("colspan", "{|\n|-\n|%(a)s| c\n!%(a)s| h\n|}"),
    ("rowspan", "{|\n|-\n|%(a)s| c ||%(a)s| d\n|}"), ("align", "{|\n|+%(a)s| cap\n|-\n| c\n|}"),
    ("name", "x<ref%(a)s>n</ref> y<ref%(a)s/>"), ("group", "<references%(a)s/>"), ("widths", "<gallery%(a)s>\nImage:x.jpg|c\n</gallery>"),
    ("line", "<source%(a)s>x</source>"), ("from", "<pages index=I%(a)s to=2 />"), ("compact", "<poem%(a)s>\nx\n</poem>"),
    ("name", "{{#tag:ref|x|name=%(v)s}}"), ("width", "<imagemap%(a)s>\nImage:x.jpg|%(v)spx\nrect 0 0 %(v)s 1 [[A]]\n</imagemap>"),
    ("upright", "[[Image:x.jpg|thumb|%(v)spx|upright=%(v)s|c]]"), ("h", "<h2%(a)s>x</h2>"), ("x", "<math%(a)s>x</math><timeline%(a)s>x</timeline>"),
]


def attr_family():
    """deterministic: every number-like character x every construct that takes attributes, with rotating sign / whitespace / quoting"""
    out = []
    k = 0
    for ch in NUM_CHARS:
        for name, ctx in ATTR_CONTEXTS:
            sign = NUM_SIGNS[k % 4]                       # "", "", "+", "-"
            sp = ["", "", " ", "\t"][(k // 4) % 4]
            v = sp + sign + ch + sp
            out.append(ctx % {"a": " %s=%s" % (name, quote_value(v, k % 3)), "v": v.strip()})
            k += 1
    return out


def attr_case(rng, size):
    """random: a few constructs with generated number-like attributes, embedded in grammar output"""
    parts = []
    for _ in range(rng.randint(1, 4)):
        name, ctx = rng.choice(ATTR_CONTEXTS)
        if rng.random() < 0.4:
            # any element kind with any (read-by-name / standard) attribute name and an int-like / numeric-looking / mixed value
            _kind, _oneline, tpl = rng.choice(attr_elements())
            nm = rng.choice(readattr_names())
            val = rng.choice(attr_values()) if rng.random() < 0.7 else num_value(rng)
            parts.append(tpl % {"a": attr_string(nm, val, rng.randrange(4)), "n": nm, "v": val})
            continue
        a = "".join(num_attr(rng, name if rng.random() < 0.5 else None) for _ in range(rng.choice([1, 1, 2, 3])))
        parts.append(ctx % {"a": a, "v": num_value(rng).strip()})
        if rng.random() < 0.4:
            parts.append(rng.choice(["\n", " ", "\n\n"]) + inline(rng, 1, size // 4))
    return rng.choice(["", "\n", "x\n"]).join(parts)


# ---- attributes that the parser sources READ BY NAME (family `readattrs`).  attr_family above gives each construct ONE attribute name; code
# further down the pipeline (tag extensions, TagParser, post-processors, tree cleaning) looks particular names up in the attribute dict of
# particular node kinds and then uses the value as a str / dict, while parse_params has stored an int for every value int() accepts (also
# for quoted ones: class="2024", " 5 ", "5_0", "٣").  READ_NAMES is filled by vt/props/c01.py on every run from an ast scan of the
# snapshot (vt/gen/c01_attrnames.py): every key looked up by name anywhere in mwlib/parser, mwlib/extensions, mwlib/rendering.  The family
# crosses every such name (and the standard HTML attribute names) with every value class below on EVERY element kind that carries
# attributes, in 4 attribute forms (double / single / un-quoted, and as a property of style=) and 7 position classes.
READ_NAMES = []

# values int() accepts (parse_params stores an int) ...
ATTR_VALUES_INT = ["5", "2024", "0", "007", "-1", "+5", " 5 ", "5_0", "٣", "１２", "9" * 25, "\t7\n"]
# ... numeric-looking values it rejects, mixed values, and the two trivial ones
ATTR_VALUES_STR = ["1.5", "1e3", "5%", "0x10", "²", "5px", "x5", "5 a", "a 5", "5;6", "5:6", "", "a"]


def attr_values():
    """int-like and other values interleaved (the forms and positions rotate with the document index)"""
    out = []
    for i in range(max(len(ATTR_VALUES_INT), len(ATTR_VALUES_STR))):
        if i < len(ATTR_VALUES_INT):
            out.append(ATTR_VALUES_INT[i])
        if i < len(ATTR_VALUES_STR):
            out.append(ATTR_VALUES_STR[i])
    return out


_COMPOSITE_PARTS = {"table", "caption", "tr", "td", "th", "ol", "ul", "li", "dl", "dt", "dd"}
_VOID_TAGS = {"br", "hr", "references", "startfeed", "endfeed"}


def attr_elements():
    """(kind, fits on one line?, template): every element kind that carries attributes; %(a)s = attribute string with its leading space,
    %(n)s / %(v)s = bare name and value"""
    out = []
    for t in HTML_TAGS:
        if t in _COMPOSITE_PARTS:
            continue
        if t in _VOID_TAGS:
            out.append((t, True, "a<%s%%(a)s/>b" % t))
        else:
            out.append((t, True, "<%s%%(a)s>x</%s>" % (t, t)))
    out += [
        ("table", True, "<table%(a)s><caption%(a)s>c</caption><tr%(a)s><td%(a)s>x</td><th%(a)s>y</th></tr></table>"),
        ("ol", True, "<ol%(a)s><li%(a)s>x</li></ol>"), ("ul", True, "<ul%(a)s><li%(a)s>x</li></ul>"), ("li", True, "<li%(a)s>x</li>"),
        ("dl", True, "<dl%(a)s><dt%(a)s>x</dt><dd%(a)s>y</dd></dl>"), ("td", True, "<table><tr><td%(a)s>x</td></tr></table>"),
        ("div-unclosed", True, "<div%(a)s>x"), ("div-in-div", True, "<div%(a)s><div%(a)s>x</div></div>"), ("br-open", True, "a<br%(a)s>b"),
        ("wikitable", False, "{|%(a)s\n|-\n| c\n|}"), ("wikirow", False, "{|\n|-%(a)s\n| c\n|}"), ("wikicell", False, "{|\n|-\n|%(a)s| c ||%(a)s| d\n|}"),
        ("wikiheader", False, "{|\n|-\n!%(a)s| h !!%(a)s| i\n|}"), ("wikicaption", False, "{|\n|+%(a)s| cap\n|-\n| c\n|}"),
        ("gallery", False, "<gallery%(a)s>\nImage:x.jpg|c\n</gallery>"), ("imagemap", False, "<imagemap%(a)s>\nImage:x.jpg|100px\nrect 0 0 1 1 [[A]]\n</imagemap>"),
        ("poem", False, "<poem%(a)s>\nx\n</poem>"), ("timeline", False, "<timeline%(a)s>\nx\n</timeline>"),
        ("pages", True, "<pages index=I%(a)s />"), ("pages-range", True, "<pages index=I from=1 to=2%(a)s />"), ("ref-empty", True, "x<ref%(a)s/>"),
        ("tagfn-ref", True, "{{#tag:ref|x|%(n)s=%(v)s}}"), ("tagfn-poem", True, "{{#tag:poem|x|%(n)s=%(v)s}}"), ("tagfn-gallery", True, "{{#tag:gallery|Image:x.jpg|%(n)s=%(v)s}}"),
        ("tagfn-source", True, "{{#tag:source|x|%(n)s=%(v)s}}"), ("tagfn-pages", True, "{{#tag:pages||index=I|%(n)s=%(v)s}}"),
    ]
    for t in EXT_TAGS:
        if t not in ("gallery", "imagemap", "poem", "timeline", "pages"):
            out.append((t, True, "x<%s%%(a)s>y</%s>" % (t, t)))
    return out


def attr_string(name, v, form):
    """form 0 / 1 / 2: NAME="V" / NAME='V' / NAME=V; form 3: V as the value of the style property NAME"""
    if form == 3:
        return ' style="%s:%s"' % (name, v.replace('"', ""))
    return " %s=%s" % (name, quote_value(v, form))


# position classes: top level, nested in another element, table cell, list item, reference body, image caption, produced by a template
ATTR_POSITIONS = ["top", "nested", "cell", "item", "ref", "caption", "template"]
ATTR_POSITIONS_MULTILINE = ["top", "nested", "cell", "ref", "template"]
ATTR_TEMPLATE_PAGE = "rattr"


def readattr_doc(name, v, shift, elements=None):
    """One document (raw, db): every element kind once, all with the attribute NAME=V; element number e gets form (e + shift) % 4 and
    position class ((e + shift) // 4) % (number of classes), so that 28 consecutive shifts give every element every (form, position)."""
    elements = elements or attr_elements()
    groups = {p: [] for p in ATTR_POSITIONS}
    for e, (_kind, oneline, tpl) in enumerate(elements):
        k = e + shift
        form = k % 4
        pos_list = ATTR_POSITIONS if oneline else ATTR_POSITIONS_MULTILINE
        pos = pos_list[(k // 4) % len(pos_list)]
        val = "{{{1}}}" if pos == "template" else v
        groups[pos].append(tpl % {"a": attr_string(name, val, form), "n": name, "v": val})
    parts = []
    if groups["top"]:
        parts.append("\n".join(groups["top"]))
    if groups["nested"]:
        parts.append('<div class="outer"><span>\n%s\n</span></div>' % "\n".join(groups["nested"]))
    if groups["cell"]:
        parts.append("{|\n|-\n%s|}" % "".join("|\n%s\n" % g for g in groups["cell"]))
    if groups["item"]:
        parts.append("".join("%s %s\n" % ("*#:;"[i % 4], g) for i, g in enumerate(groups["item"])))
    if groups["ref"]:
        parts.append("".join("r<ref>\n%s\n</ref>\n" % g for g in groups["ref"]))
    if groups["caption"]:
        parts.append("".join("[[Image:x.jpg|thumb|%s]]\n" % g for g in groups["caption"]))
    db = None
    if groups["template"]:
        db = dict(TEMPLATE_UNIVERSES[2])
        db[ATTR_TEMPLATE_PAGE] = "\n".join(groups["template"]) + "\n"
        parts.append("{{%s|%s}}" % (ATTR_TEMPLATE_PAGE, v))
    return "\n\n".join(parts) + "\n", db


def readattr_names():
    """names read by name in the sources (READ_NAMES, set per run) + the standard attribute names, without duplicates, in a fixed order"""
    out = []
    for n in list(READ_NAMES) + ATTR_NAMES:
        if n not in out:
            out.append(n)
    return out


def readattr_family(tier):
    """(raw, db, description).  quick: one document per (name, value), the shift advancing with the document number (so every name meets
    every element kind with every value, and over the values of one name every element meets a spread of forms and positions); thorough:
    additionally all 28 (form, position) shifts for the int-like values, 4 for the others."""
    out = []
    elements = attr_elements()
    values = attr_values()
    d = 0
    for name in readattr_names():
        for v in values:
            if tier == "quick":
                shifts = [d]
            else:
                shifts = range(28) if v in ATTR_VALUES_INT else range(0, 28, 7)
            for s in shifts:
                raw, db = readattr_doc(name, v, s, elements)
                out.append((raw, db, "%s=%r shift %d" % (name, v, s)))
            d += 5          # coprime to 4 and 7: forms and positions both advance
    return out


# ---- apostrophe runs: compute_path searches per line; its state space grows with the number of runs on ONE line
def quote_line(opener, lens, words=True, sep=" "):
    return opener + "".join(("%sw%d%s%s" % (sep, i, sep, "'" * n)) if words else (sep + "'" * n) for i, n in enumerate(lens))


QUOTE_OPENERS = ["", "'" * 2, "'" * 3, "'" * 4, "'" * 5]


def quote_family():
    """deterministic: lines with 10..60 runs of one length 2..6 after each kind of (un)balanced opener, plus alternating lengths"""
    out = []
    for opener in QUOTE_OPENERS:
        for k in (10, 20, 40, 60):
            for n in (2, 3, 4, 5, 6):
                out.append(quote_line(opener + "a", [n] * k))
            out.append(quote_line(opener + "a", [5, 3] * (k // 2)))
            out.append(quote_line(opener + "a", [5, 2, 6, 4] * (k // 4)))
    return out


# ---- unterminated / malformed tag openings followed by MANY attributes: the tag patterns of uniq.Uniquifier.replace_tags, tagparser and
# the scanner run over such text; a pattern whose attribute part is ambiguous backtracks exponentially in the number of attributes
UNTERMINATED_TAGS = ["ref", "gallery", "math", "nowiki", "source", "pre", "timeline", "imagemap", "poem", "pages", "span", "div", "table",
                     "td", "br", "references", "syntaxhighlight", "noinclude", "includeonly", "xyz"]


def unterminated_tag_family(tier):
    """deterministic: `<tag` + k attributes in one of 7 spellings + one of 6 terminators, k = 4..60"""
    spellings = [
        lambda i: ' a%d="v%d"' % (i, i),            # double-quoted
        lambda i: " a%d='v%d'" % (i, i),            # single-quoted
        lambda i: " a%d=v%d" % (i, i),              # unquoted
        lambda i: ' "v%d"' % i,                     # bare quoted strings
        lambda i: " '" if i % 2 else ' "',          # lone quote characters
        lambda i: ' a%d="v %d\'s"' % (i, i),        # the other quote inside
        lambda i: " a%d" % i,                       # names only
    ]
    terms = ["", "\n\n<b>x</b>", "<", ">", "/>", "> tail without closing tag\n== h ==\n"]
    ks = (4, 12, 16, 20, 30, 60) if tier == "quick" else (4, 8, 12, 16, 20, 24, 30, 40, 60)
    out = []
    n = 0
    for tag in UNTERMINATED_TAGS:
        for si, sp in enumerate(spellings):
            for k in ks:
                # quick: rotate the terminators; thorough: all of them
                for ti, term in enumerate(terms):
                    n += 1
                    if tier == "quick" and (n + si + ti) % 3:
                        continue
                    out.append("Some text.<%s%s%s" % (tag, "".join(sp(i) for i in range(k)), term))
    return out


def quote_case(rng, maxlen):
    k = rng.choice([10, 14, 18, 24, 32, 40, 60])
    prof = rng.choice([[5], [5], [2, 3], [2, 3, 5], [2, 3, 4, 5, 6], [5, 6], [4, 5], [3, 5], [2, 5], [5, 5, 5, 3], [6, 7, 9]])
    lens = [rng.choice(prof) for _ in range(k)]
    opener = rng.choice(QUOTE_OPENERS + ["* " + "'" * 2, "; " + "'" * 3, "== " + "'" * 3, "{|\n| " + "'" * 3, "[[A|" + "'" * 3, "<b>" + "'" * 2])
    sep = rng.choice([" ", " ", "", "x"])
    line = quote_line(opener + "a", lens, words=rng.random() < 0.7, sep=sep)
    if rng.random() < 0.3:
        line = line.replace("'" * 5, "{{q5}}")
    tail = rng.choice(["", "\n", "\n\nnext\n", " =="])
    return line + tail


# ---- re-parsing tag extensions: ParseUniq.create_ref/_poem/_gallery/_pages/_imagemap (core.py) parse their body with a NESTED parse_txt,
# ref/poem/gallery after expanding it with the article's expander, <pages> after transcluding other pages.  A page of the wiki database
# whose body contains such a tag around a call that leads back to the page recurses through the database; only the nesting counter of
# parse_txt (MAX_PARSE_DEPTH) stops it.  The family below closes a cycle of 1..3 pages through EVERY such tag (and #tag / plain calls).
def rpage_call(k):
    return "{{Page:R/%d}}" % k


# (name, recursing?, body around a call of page k).  <pages> transcludes Page:R/k (sites with a Page namespace) or R/k (others) by number.
REPARSE_WRAPPERS = [
    ("ref", True, lambda k: "<ref>%s</ref>" % rpage_call(k)),
    ("poem", True, lambda k: "<poem>\n%s\n</poem>" % rpage_call(k)),
    ("gallery", True, lambda k: "<gallery>\nImage:x.jpg|%s\n</gallery>" % rpage_call(k)),
    ("pages", True, lambda k: '<pages index="R" from=%d to=%d />' % (k, k)),
    ("pages-by-title", True, lambda k: '<pages from="R/%d" to="R/%d" />' % (k, k)),
    ("tagfn-ref", True, lambda k: "{{#tag:ref|%s}}" % rpage_call(k)),
    ("tagfn-poem", True, lambda k: "{{#tag:poem|%s}}" % rpage_call(k)),
    ("tagfn-pages", True, lambda k: "{{#tag:pages||index=R|from=%d|to=%d}}" % (k, k)),
    ("call", True, lambda k: rpage_call(k)),
    ("gallery-line", True, lambda k: "<gallery>\n%s\n</gallery>" % rpage_call(k)),
    ("imagemap", False, lambda k: "<imagemap>\nImage:x.jpg|%s\nrect 0 0 1 1 [[A]]\n</imagemap>" % rpage_call(k)),
    ("rot13", False, lambda k: "<rot13>%s</rot13>" % rpage_call(k)),
    ("nowiki", False, lambda k: "<nowiki>%s</nowiki>" % rpage_call(k)),
    ("refname", True, lambda k: '<ref name="n%d">%s</ref>' % (k, rpage_call(k))),
]


def reparse_universe(bodies):
    """pages R/1..R/n with the given bodies, reachable as Page:R/k (template call, <pages> on sites with a Page namespace) and R/k"""
    db = {}
    for i, b in enumerate(bodies):
        db["Page:R/%d" % (i + 1)] = b
        db["R/%d" % (i + 1)] = b
    return db


def reparse_family():
    """deterministic: (raw, db) for every cycle of length 1 through every wrapper (article enters it through the same wrapper or by a plain
    call), every ordered pair of recursing wrappers as a 2-cycle, and 3-cycles over rotating triples"""
    out = []
    rec = [w for w in REPARSE_WRAPPERS if w[1]]
    for name, _r, w in REPARSE_WRAPPERS:
        db = reparse_universe(["a " + w(1) + " b\n"])
        out.append(("intro\n\n" + w(1) + "\n\noutro\n", db))
        out.append((rpage_call(1), db))
    for _n1, _r1, w1 in rec:
        for _n2, _r2, w2 in rec:
            db = reparse_universe(["ping " + w1(2) + "\n", "pong " + w2(1) + "\n"])
            out.append((w2(1), db))
    for i in range(len(rec)):
        w1, w2, w3 = rec[i][2], rec[(i + 3) % len(rec)][2], rec[(2 * i + 1) % len(rec)][2]
        db = reparse_universe(["x " + w1(2), "* y " + w2(3) + "\n", "{|\n| z " + w3(1) + "\n|}\n"])
        out.append(("== h ==\n" + w3(1), db))
    return out


def reparse_case(rng, size, fanout=1):
    """random wiki of 1..4 pages; every page calls the next page of the cycle through a random wrapper (fan-out 1: one recursive edge per
    page, so the work is linear in the depth bound) amid grammar text; the article enters the cycle through a random wrapper."""
    n = rng.randint(1, 4)
    rec = [w for w in REPARSE_WRAPPERS if w[1]]
    bodies = []
    for i in range(n):
        nxt = (i + 1) % n + 1 if rng.random() < 0.8 else rng.randint(1, n)
        parts = [inline(rng, 30, size // 8), rng.choice(rec)[2](nxt), inline(rng, 30, size // 8)]
        for _ in range(fanout - 1):
            parts.insert(1, rng.choice(rec)[2](nxt))
        if rng.random() < 0.3:
            parts.insert(0, rng.choice(["* ", "; ", "{|\n| ", "== h ==\n", " ", "<div>"]))
        if rng.random() < 0.3:
            parts.append(rng.choice(REPARSE_WRAPPERS)[2](rng.randint(1, n + 1)) if fanout > 1 else rng.choice([w for w in REPARSE_WRAPPERS if not w[1]])[2](nxt))
        bodies.append(rng.choice(["", "\n"]).join(parts))
    raw = inline(rng, 30, size // 6) + rng.choice(["", "\n", "\n\n"]) + rng.choice(REPARSE_WRAPPERS)[2](rng.randint(1, n)) + rng.choice(["", "\n", " x"])
    return raw, reparse_universe(bodies)


# cycles through every re-parsing tag for the random kinds ({{rec}}, <pages index=I ..>, <pages index=X ..> occur in the alphabet)
TEMPLATE_UNIVERSES.append(
    {"a": "<poem>\n{{rec}}\n</poem>", "b": "<gallery>\nImage:x.jpg|{{{1}}} {{rec}}\n</gallery>", "c": "{{#tag:ref|{{c|{{{1|}}}}}}}", "d": "<pages index=I from=2 to=2 />",
     "e": "<ref>{{e|{{{1}}}}}</ref>", "rec": "<poem>\n{{rec}}\n</poem>",
     "Page:I/1": "p1 <pages index=I from=1 to=1 />", "I/1": "p1 <pages index=I from=1 to=1 />", "Page:I/2": "<gallery>\nImage:x.jpg|{{d}}\n</gallery>",
     "I/2": "<gallery>\nImage:x.jpg|{{d}}\n</gallery>", "Page:X/1": "<pages index=X from=2 to=2 />", "X/1": "<pages index=X from=2 to=2 />",
     "Page:X/2": "<ref><pages index=X from=3 to=3 /> {{Page:X/1}}</ref>", "X/2": "<ref><pages index=X from=3 to=3 /> {{Page:X/1}}</ref>", "Page:X/3": "x3", "X/3": "x3"})

for _u in TEMPLATE_UNIVERSES:
    if _u is not None:
        _u["q5"] = "'" * 5


# ---- long digit strings: Python >= 3.11 refuses int(str) / str(int) beyond 4300 digits with ValueError (sys.set_int_max_str_digits), so every
# conversion of a digit string taken from the input is a place where a parse can abort.  The family puts a long digit string at EVERY numeric
# position: each maximal ASCII digit run of each construct in the pool below (attribute values, image options, imagemap coordinates, gallery
# attributes, <pages> ranges, table spans, list starts, entities, magic links, timeline scripts, parser-function and template arguments) is
# replaced, one position at a time.
INT_MAX_STR_DIGITS = 4300
_DIGITS_RE = re.compile(r"[0-9]+")

LONGDIGIT_EXTRA = [
    "<imagemap>\nImage:a.png|100px\nrect 1 2 3 4 [[x]]\ncircle 5 6 7 [[y]]\npoly 1 2 3 4 5 6 [[z]]\ndefault [[d]]\n</imagemap>",
    "<imagemap>\nImage:a.png\nrect 1 1 1 1 [[x]]\n</imagemap>",
    "<gallery widths=120 heights=90 perrow=3 caption=1>\nImage:x.jpg|100px|c\n</gallery>", '<gallery widths="120px" heights="90px" perrow="3">\nImage:x.jpg\n</gallery>',
    "[[File:x.png|100px]]", "[[File:x.png|100x200px]]", "[[File:x.png|x200px]]", "[[File:x.png|thumb|upright=1.5|100px|c]]", "[[File:x.png|page=2|100px]]",
    "[[Image:x.png|thumb|1|2]]", "{|\n|-\n| colspan=2 rowspan=3 | c\n! colspan=\"2\" | h\n|}", "{| border=1 cellpadding=2 width=50%\n|+ c\n|-\n| x\n|}",
    "<table border=1><tr><td colspan=2 rowspan=3 width=10>x</td></tr></table>", "<ol start=3><li value=4>x</li></ol>", "<ul><li value=\"4\">x</ul>",
    "<font size=3>x</font>", "<font size=\"+1\">x</font>", "<h2 id=1>x</h2>", "<div style=\"width:100px;margin:1em\">x</div>", "<br clear=1 />", "<hr width=50>",
    '<pages index="I" from=1 to=2 />', '<pages index=I from="1" to="2" fromsection=1 tosection=2 step=1 />', '<pages from=1 to=2 />',
    "<timeline>\nImageSize = width:100 height:50\nPeriod = from:1 till:10\nScaleMajor = unit:year increment:5 start:1\nPlotData=\n bar:a from:1 till:2 width:3\n</timeline>",
    "<ref name=1 group=2>x</ref><references group=2 />", "<references responsive=1 colwidth=30em />", "<source lang=c line start=5 highlight=2>x</source>",
    "<syntaxhighlight lang=c line=1 start=5>x</syntaxhighlight>", "<poem style=1>\n x\n</poem>", "<math display=1>x^2</math>", "<hiero>1</hiero>",
    "<section begin=1 /><section end=1 />", "<categorytree depth=2>K</categorytree>", "<inputbox>\nwidth=10\n</inputbox>", "<mapframe width=100 height=50 zoom=3 />",
    "&#65;", "&#x41;", "&#065;", "ISBN 3161484100", "ISBN 3-16-148410-0", "RFC 123", "PMID 123", "# 1\n# 2\n#:3", "== 1 ==", "=1=", "1", "0.5", "1e5", "-1", "1,000.5",
    "http://x.org:80/1", "[http://x.org/1 2]", "[[1]]", "[[A#1|2]]", "[[:Category:1]]", "[[en:1]]", "{{{1}}}", "{{{1|2}}}", "{{b|1}}", "{{c|1=2|n=3}}", "{{b|1=2}}",
    "{{#expr:1+2}}", "{{#expr:1.5*2}}", "{{#expr:2^3}}", "{{#expr:1e2}}", "{{#expr:7 mod 2}}", "{{#expr:7 div 2}}", "{{#expr:1 round 2}}", "{{#expr:trunc 1}}",
    "{{#expr:not 1}}", "{{#expr:-1}}", "{{#expr:1/3}}", "{{#expr:abs 1}}", "{{#expr:ceil 1.5}}", "{{#expr:floor 1.5}}", "{{#expr:exp 1}}", "{{#expr:ln 2}}", "{{#expr:sin 1}}",
    "{{#expr:1=1}}", "{{#expr:1<2}}", "{{#expr:1 and 2}}", "{{#expr:(1)}}", "{{#ifexpr:1>2|a|b}}", "{{#ifeq:1|1.0|a|b}}", "{{#ifeq:01|1|a|b}}", "{{#switch:1|1=a|2=b|#default=c}}",
    "{{#switch:1.0|1=a|b}}", "{{#if:1|2|3}}", "{{padleft:1|5|0}}", "{{padright:1|5|0}}", "{{padleft:x|5}}", "{{#time:Y|2001}}", "{{#time:Y-m-d|2001-02-03}}",
    "{{#time:U|1}}", "{{#time:xrY|2001}}", "{{#time:Y|@1}}", "{{#time:Y|+1 day}}", "{{formatnum:1234.5}}", "{{formatnum:1234|R}}", "{{#titleparts:a/b/c|1|2}}",
    "{{#titleparts:a/b/c|-1}}", "{{ns:1}}", "{{ns:-1}}", "{{plural:2|a|b}}", "{{PLURAL:1|a|b}}", "{{lc:1}}", "{{ucfirst:1}}", "{{urlencode:1}}", "{{anchorencode:1}}",
    "{{fullurl:1|2=3}}", "{{localurl:1}}", "{{#tag:ref|1|name=2}}", "{{#tag:gallery|Image:x.jpg|widths=1}}", "{{#language:1}}", "{{int:1}}", "{{#rel2abs:../1}}",
    "{{#iferror:{{#expr:1/0}}|1|2}}", "{{#ifexist:1|2|3}}", "{{#lst:1|2}}", "{{DEFAULTSORT:1}}", "{{DISPLAYTITLE:1}}", "{{NUMBEROFARTICLES:1}}", "{{PAGESINCATEGORY:1}}",
    "{{CURRENTYEAR:1}}", "{{REVISIONID:1}}", "{{PAGENAME:1}}", "{{NAMESPACE:1}}", "{{TALKPAGENAME:1}}", "{{grammar:1|2}}", "{{gender:1|a|b}}", "{{#dateformat:1 January 2001}}",
    "{{subst:1}}", "{{msg:1}}", "{{:1}}", "{{1}}", "{{#expr:1}}{{#expr:2}}", "{{padleft:{{#expr:10^3}}|2}}", "{{#expr:10^4500}}", "{{#expr:2^15000}}", "{{#expr:9999^1100}}",
    "{{#expr:1e4500}}", "{{#expr:1e300*1e300}}", "{{#expr:trunc 1e400}}", "{{#expr:floor(1e308*10)}}", "{{#expr:10^4500 mod 7}}", "{{formatnum:{{#expr:10^4500}}}}",
]


def longdigit_pool():
    pool = list(LONGDIGIT_EXTRA)
    for name, ctx in ATTR_CONTEXTS:
        pool.append(ctx % {"a": " %s=1" % name, "v": "1"})
        pool.append(ctx % {"a": ' %s="1"' % name, "v": "1"})
    for a in ATTRS + PAGES_ATTRS:
        pool.append("<div%s>x</div>" % a)
        pool.append("<pages%s />" % a)
    for b in IMAGEMAP_BODIES:
        pool.append("<imagemap>%s</imagemap>" % b)
    for b in TIMELINE_BODIES:
        pool.append("<timeline>%s</timeline>" % b)
    for b in GALLERY_BODIES:
        pool.append("<gallery>%s</gallery>" % b)
    pool += ENTITIES + LINKS + TEMPL_CALLS + [m for m in MARKUP if _DIGITS_RE.search(m)] + [w for w in WORDS if _DIGITS_RE.search(w)]
    seen = set()
    out = []
    for p in pool:
        if p not in seen and _DIGITS_RE.search(p):
            seen.add(p)
            out.append(p)
    return out


def longdigit_values(tier):
    """digit strings just above the interpreter's int<->str limit (and at it, which must still convert)"""
    n = INT_MAX_STR_DIGITS
    if tier == "quick":
        return ["9" * (n + 1)]
    return ["9" * (n + 1), "1" + "0" * n, "9" * n, "0" * 5 + "9" * (n + 1), "9" * 4990]


def longdigit_family(tier):
    """(raw, position description) for every digit-run position of every pool construct x every long value (one position at a time)"""
    out = []
    seen = set()
    for p in longdigit_pool():
        if p not in seen:
            seen.add(p)
            out.append(p)           # the construct itself (some compute long numbers from short texts, e.g. 10^4500)
        runs = list(_DIGITS_RE.finditer(p))
        for j, m in enumerate(runs):
            for v in longdigit_values(tier):
                raw = p[:m.start()] + v + p[m.end():]
                if raw not in seen:
                    seen.add(raw)
                    out.append(raw)
    return out


# ---- strip markers: uniq.Uniquifier replaces every extension tag by "\x7fUNIQ-<tag>-<n>-<16 hex of the process>-QINU\x7f" and puts the
# tags back later (tokenizer: text of every HTML-ish tag; expander: result of every expansion; ParseUniq: t_uniq tokens).  The marker
# uses the DEL control character, which is part of the input alphabet: text pasted from rendered output, or forged, contains markers that
# are NOT in the table of the current parse (unknown), that ARE in it (the harness fixes the per-process random string to UNIQ_RAND, so a
# forged marker with a small counter names a real tag of the same text - another one, or the very tag it sits in), or that only look like
# one.  The family puts every marker variant at every position class.
UNIQ_RAND = "0123456789abcdef"


def uniq_marker(name="ref", n="7", rand="fedcba9876543210"):
    return "\x7fUNIQ-%s-%s-%s-QINU\x7f" % (name, n, rand)


def uniq_markers():
    """(description, marker text)"""
    out = []
    # well-formed, not in the table: foreign random string / counter beyond the table, for every kind of tag name
    for nm in ("ref", "nowiki", "math", "gallery", "pre", "source", "imagemap", "timeline", "poem", "pages", "zz9", "0"):
        out.append(("unknown:" + nm, uniq_marker(nm)))
    for n in ("0", "00", "99999999999999999999"):
        out.append(("unknown-counter:" + n, uniq_marker(n=n)))
    for rd in ("a", "deadbeef", "0" * 40):
        out.append(("unknown-rand:" + rd[:8], uniq_marker(rand=rd)))
    # the process's own random string: counter inside the table (names a real tag when the text has one) or beyond it
    for nm, n in (("ref", "0"), ("nowiki", "0"), ("ref", "1"), ("nowiki", "1"), ("math", "0"), ("gallery", "0"), ("poem", "0"), ("pages", "0"),
                  ("ref", "2"), ("ref", "7"), ("ref", "4000")):
        out.append(("own-rand:%s-%s" % (nm, n), uniq_marker(nm, n, UNIQ_RAND)))
    # ill-formed: right shape for one of the three recognisers only (Python \d and the scanner's [0-9] differ; case), truncated, nested
    out.append(("illformed:unicode-digit-counter", uniq_marker(n="٣")))
    out.append(("illformed:upper-hex", uniq_marker(rand="ABCDEF0123")))
    out.append(("illformed:upper-name", uniq_marker("REF")))
    out.append(("illformed:empty-name", uniq_marker("")))
    out.append(("illformed:no-counter", "\x7fUNIQ-ref--fedcba-QINU\x7f"))
    m = uniq_marker()
    out.append(("truncated:head", m[:20]))
    out.append(("truncated:no-trailing-del", m[:-1]))
    out.append(("truncated:no-leading-del", m[1:]))
    out.append(("truncated:tail", m[-6:]))
    out.append(("truncated:prefix-only", "\x7fUNIQ-"))
    out.append(("truncated:del-only", "\x7f"))
    out.append(("nested:in-name", "\x7fUNIQ-" + m + "-7-fedcba-QINU\x7f"))
    out.append(("nested:in-rand", "\x7fUNIQ-ref-7-" + m + "-QINU\x7f"))
    out.append(("nested:adjacent", m + m))
    out.append(("nested:shared-del", m + "UNIQ-ref-8-fedcba9876543210-QINU\x7f"))
    out.append(("nested:own-in-unknown", "\x7fUNIQ-ref-7-" + uniq_marker("ref", "0", UNIQ_RAND) + "-QINU\x7f"))
    out.append(("nested:marker-around-tag", "\x7fUNIQ-ref-7-<nowiki>fedcba</nowiki>-QINU\x7f"))
    return out


# position classes; %(m)s = the marker
UNIQ_CONTEXTS = [
    ("text", "before %(m)s after"), ("text-alone", "%(m)s"), ("text-glued", "a%(m)sb%(m)s"), ("heading", "== %(m)s ==\nx"), ("list", "* %(m)s\n# x %(m)s\n"),
    ("definition", "; %(m)s : %(m)s\n"), ("pre-line", " %(m)s\n"), ("hrule", "----%(m)s\n"), ("comment", "a <!-- %(m)s --> b"), ("entity", "&%(m)s; &#%(m)s;"),
    ("table-cell", "{|\n|-\n| %(m)s || %(m)s\n! %(m)s\n|}"), ("table-attr", "{| title=%(m)s class=\"%(m)s\"\n|-\n| c\n|}"), ("row-attr", "{|\n|- title=\"%(m)s\"\n| c\n|}"),
    ("cell-attr", "{|\n|-\n| title=\"%(m)s\" | c\n! id=%(m)s | h\n|}"), ("caption", "{|\n|+ %(m)s\n|-\n| c\n|}"), ("caption-attr", "{|\n|+ title='%(m)s' | cap\n|-\n| c\n|}"),
    ("html-attr-dq", '<span title="%(m)s">x</span>'), ("html-attr-sq", "<span title='%(m)s'>x</span>"), ("html-attr-bare", "<div class=%(m)s>y</div>"),
    ("html-attr-selfclosing", 'a<br clear="%(m)s"/>b<hr title=%(m)s>'), ("html-attr-style", '<div style="color:%(m)s;width:%(m)s">y</div>'),
    ("html-attr-name", "<span %(m)s=1>x</span>"), ("html-attr-valueless", "<span %(m)s>x</span>"), ("html-tag-name", "<%(m)s>x</%(m)s>"), ("html-tag-name-glued", "<span%(m)s>x</span>"),
    ("html-close-tag", "<span>x</span %(m)s>"), ("html-table-attrs", '<table title="%(m)s"><tr id=%(m)s><td title="%(m)s">x</td><th abbr=%(m)s>y</th></tr></table>'),
    ("html-list-attrs", '<ol start="%(m)s"><li value=%(m)s>x</li></ol><ul><li title="%(m)s">y</ul>'), ("html-heading-attr", '<h2 id="%(m)s">x</h2>'),
    ("html-font-attr", '<font size=%(m)s color="%(m)s">x</font>'), ("html-unclosed", '<span title="%(m)s">x'), ("html-two-tags", '<b title="%(m)s"><i title="%(m)s">x</i></b>'),
    ("ext-attr", '<ref name="%(m)s" group=%(m)s>x</ref><references group="%(m)s"/>'), ("ext-attr-gallery", '<gallery caption="%(m)s" widths=%(m)s>\nImage:x.jpg|c\n</gallery>'),
    ("ext-attr-source", '<source lang="%(m)s">x</source><syntaxhighlight lang=%(m)s>y</syntaxhighlight>'), ("ext-attr-pages", '<pages index="%(m)s" from=%(m)s to=2 />'),
    ("ext-attr-math", '<math title="%(m)s">x</math><poem style="%(m)s">\nx\n</poem>'), ("ext-body-ref", "a<ref>%(m)s</ref>b"), ("ext-body-named-ref", 'a<ref name="n">%(m)s</ref><ref name="n"/>'),
    ("ext-body-nowiki", "<nowiki>%(m)s</nowiki>"), ("ext-body-pre", "<pre>%(m)s</pre>"), ("ext-body-math", "<math>%(m)s</math>"), ("ext-body-source", "<source>%(m)s</source>"),
    ("ext-body-gallery", "<gallery>\nImage:x.jpg|%(m)s\n%(m)s\nImage:%(m)s.jpg\n</gallery>"), ("ext-body-poem", "<poem>\n%(m)s\n :%(m)s\n</poem>"),
    ("ext-body-imagemap", "<imagemap>\nImage:x.jpg|%(m)s\nrect 0 0 1 1 [[%(m)s]]\ndefault [[A|%(m)s]]\n</imagemap>"), ("ext-body-timeline", "<timeline>\n%(m)s\n</timeline>"),
    ("ext-body-generic", "<rot13>%(m)s</rot13><hiero>%(m)s</hiero><section begin=%(m)s />"), ("ext-tag-in-html-attr", '<span title="<nowiki>%(m)s</nowiki>">x</span>'),
    ("ext-nested", "<ref>a <nowiki>%(m)s</nowiki> <span title=\"%(m)s\">b</span></ref>"), ("link-target", "[[%(m)s]] [[A%(m)s]]"), ("link-label", "[[A|%(m)s]]"), ("link-anchor", "[[A#%(m)s|b]]"),
    ("link-ns", "[[Category:%(m)s]] [[:Image:%(m)s]] [[en:%(m)s]]"), ("image-caption", "[[Image:x.jpg|thumb|%(m)s]]"), ("image-options", "[[Image:x.jpg|alt=%(m)s|link=%(m)s|%(m)spx|c]]"),
    ("image-name", "[[Image:%(m)s.jpg|thumb|c]]"), ("extlink-url", "[http://x.org/%(m)s l] http://x.org/%(m)s"), ("extlink-label", "[http://x.org %(m)s]"),
    ("quotes", "''%(m)s'' " + "'" * 3 + "%(m)s" + "'" * 3), ("magic", "__%(m)s__ {{%(m)s}} ~~~~"),
    ("template-arg", "{{b|%(m)s}}"), ("template-named-arg", "{{c|1=x|n=%(m)s}}"), ("template-arg-name", "{{c|%(m)s=x}}"), ("template-name", "{{%(m)s}} {{:%(m)s}}"),
    ("template-arg-link", "{{e|%(m)s}}"), ("parameter", "{{{%(m)s}}} {{{1|%(m)s}}}"), ("template-arg-html-attr", '{{b|1=<span title="%(m)s">y</span>}}'),
    ("template-arg-html-attr-bare", "{{b|1=<div class=%(m)s>y</div>}}"), ("template-arg-ext-attr", '{{b|1=<ref name="%(m)s">y</ref>}}'),
    ("pf-if", "{{#if:%(m)s|%(m)s|n}}"), ("pf-ifeq", "{{#ifeq:%(m)s|%(m)s|y|n}}"), ("pf-switch", "{{#switch:%(m)s|%(m)s=1|#default=2}}"), ("pf-tag-body", "{{#tag:ref|%(m)s}}"),
    ("pf-tag-attr", "{{#tag:ref|x|name=%(m)s}}"), ("pf-tag-html", '{{#tag:nowiki|<span title="%(m)s">x</span>}}'), ("pf-tag-name", "{{#tag:%(m)s|x}}"),
    ("pf-string", "{{lc:%(m)s}} {{uc:%(m)s}} {{ucfirst:%(m)s}} {{urlencode:%(m)s}} {{anchorencode:%(m)s}}"), ("pf-pad", "{{padleft:x|5|%(m)s}} {{padleft:%(m)s|80|ab}}"),
    ("pf-expr", "{{#expr:%(m)s}} {{#ifexpr:%(m)s|a|b}}"), ("pf-title", "{{#titleparts:%(m)s/x|1}} {{PAGENAME:%(m)s}} {{fullurl:%(m)s}} {{ns:%(m)s}} {{#ifexist:%(m)s|y|n}}"),
    ("pf-time", "{{#time:%(m)s}} {{#time:Y|%(m)s}} {{formatnum:%(m)s}} {{plural:%(m)s|a|b}}"),
    ("page-text", "{{um}}"), ("page-html-attr", "{{uma}}"), ("page-passes-arg-to-html-attr", "{{uu|%(m)s}}"), ("page-passes-arg-to-ext-attr", "{{uv|%(m)s}}"),
    ("page-in-html-attr", '<span title="{{um}}">x</span>'), ("page-in-ext-body", "<ref>{{um}} {{uma}}</ref>"), ("page-via-tagfn", "{{#tag:ref|{{uma}}|name={{um}}}}"),
]
# text with real extension tags in front, so that the uniquifier's table is not empty (own-rand markers with small counters are then IN it)
UNIQ_PREFIXES = ["", "<nowiki>''n''</nowiki> <ref>r</ref> <math>x</math> "]


def uniq_universe(m):
    db = dict(TEMPLATE_UNIVERSES[2])
    db.update({"um": "p %s q" % m, "uma": '<div class=%s title="%s">y</div>' % (m, m), "uu": '<span title="{{{1}}}">{{{2|x}}}</span>',
               "uv": '<ref name="{{{1}}}">r {{{1}}}</ref>'})
    return db


def uniq_family(tier):
    """(raw, db, description): every marker variant x every position class x {empty table, table with real tags}; quick: the
    variants rotate over the position classes for all but one representative of each group (every variant still meets >= 1/3 of the
    classes and every class meets every group)"""
    out = []
    marks = uniq_markers()
    reps = {"unknown:ref", "unknown:nowiki", "own-rand:ref-0", "own-rand:nowiki-0", "own-rand:ref-7", "unknown-counter:0", "illformed:unicode-digit-counter",
            "truncated:no-trailing-del", "nested:in-rand", "nested:adjacent", "nested:own-in-unknown"}
    for ci, (cname, ctx) in enumerate(UNIQ_CONTEXTS):
        for mi, (mname, m) in enumerate(marks):
            if tier == "quick" and mname not in reps and (ci + mi) % 3:
                continue
            for pi, pre in enumerate(UNIQ_PREFIXES):
                if pi and not (mname.startswith("own-rand") or mname.startswith("nested:own") or (ci + mi) % 4 == 0):
                    continue
                raw = pre + ctx % {"m": m}
                out.append((raw, uniq_universe(m) if "{{" in raw else None, "%s@%s" % (mname, cname)))
    return out


def uniq_case(rng, size):
    """random: a marker with random fields at 1..3 random position classes amid grammar text"""
    name = rng.choice(["ref", "nowiki", "math", "gallery", "pre", "poem", "pages", "source", "x", "9", ""])
    n = rng.choice(["0", "0", "1", "2", "3", "7", "12", "99999999999", "٣", "-1", ""])
    rand = rng.choice([UNIQ_RAND, UNIQ_RAND, "fedcba9876543210", "a", "", "ABCDEF", "0123456789abcdeg"])
    m = uniq_marker(name, n, rand)
    r = rng.random()
    if r < 0.1:
        m = m[:rng.randrange(1, len(m))]
    elif r < 0.2:
        m = m + uniq_marker(rng.choice(["ref", "nowiki"]), rng.choice(["0", "1", "7"]), rng.choice([UNIQ_RAND, "fedcba"]))
    elif r < 0.3:
        m = "\x7fUNIQ-ref-%s-%s-QINU\x7f" % (rng.choice(["0", "7"]), m)
    parts = [rng.choice(UNIQ_PREFIXES + ["<ref>r</ref>", "<nowiki>n</nowiki>"])]
    for _ in range(rng.randint(1, 3)):
        parts.append(rng.choice(UNIQ_CONTEXTS)[1] % {"m": m})
        if rng.random() < 0.5:
            parts.append(rng.choice(["\n", " ", "\n\n"]) + inline(rng, 1, size // 4))
    raw = rng.choice(["", "\n", " "]).join(parts)
    return raw, (uniq_universe(m) if "{{" in raw else None)


def html_tag(rng, name=None, kind=None):
    name = name or rng.choice(HTML_TAGS + EXT_TAGS)
    kind = kind or rng.choice(["open", "open", "close", "self", "openattr"])
    if rng.random() < 0.05:
        name = name.upper()
    if kind == "open":
        return "<%s>" % name
    if kind == "close":
        return "</%s%s>" % (name, rng.choice(["", "", " ", "\n"]))
    attrs = rng.choice(ATTRS) if rng.random() < 0.75 else "".join(num_attr(rng) for _ in range(rng.choice([1, 1, 2])))
    if kind == "self":
        return "<%s%s/>" % (name, attrs)
    return "<%s%s>" % (name, attrs)


def ext_element(rng, depth, budget):
    name = rng.choice(EXT_TAGS)
    if name == "imagemap":
        body = rng.choice(IMAGEMAP_BODIES)
    elif name == "timeline":
        body = rng.choice(TIMELINE_BODIES)
    elif name == "gallery":
        body = rng.choice(GALLERY_BODIES)
    elif name == "math":
        body = rng.choice(MATH_BODIES)
    elif name == "poem":
        body = rng.choice(POEM_BODIES)
    elif name in ("source", "syntaxhighlight", "pre", "nowiki"):
        body = rng.choice(SOURCE_BODIES + [inline(rng, depth + 1, budget // 2)])
    elif name == "pages":
        return "<pages%s />" % rng.choice(PAGES_ATTRS)
    else:
        body = inline(rng, depth + 1, budget // 2) if rng.random() < 0.7 else block(rng, depth + 1, budget // 2)
    attr = (rng.choice(ATTRS) if rng.random() < 0.75 else num_attr(rng)) if rng.random() < 0.4 else ""
    close = "</%s>" % name if rng.random() < 0.9 else ""
    return "<%s%s>%s%s" % (name, attr, body, close)


MAXDEPTH = 40


def atom(rng):
    r = rng.random()
    if r < 0.45:
        return rng.choice(WORDS)
    if r < 0.55:
        return rng.choice(ENTITIES)
    if r < 0.62:
        return rng.choice(CONTROL)
    if r < 0.72:
        return rng.choice(LINKS)
    if r < 0.80:
        return rng.choice(TEMPL_CALLS)
    if r < 0.92:
        return rng.choice(MARKUP)
    return html_tag(rng)


def inline(rng, depth, budget):
    """inline run of roughly `budget` characters"""
    out = []
    n = 0
    while n < budget:
        r = rng.random()
        if depth < MAXDEPTH - 2 and budget > 8 and r < 0.30:
            sub = inline(rng, depth + 1, max(2, budget // rng.choice([2, 3, 4])))
            k = rng.randrange(9)
            if k == 0:
                s = "''%s''" % sub
            elif k == 1:
                s = "'''%s'''" % sub
            elif k == 2:
                s = "[[A|%s]]" % sub
            elif k == 3:
                s = "[http://x.org %s]" % sub
            elif k == 4:
                t = rng.choice(["b", "i", "u", "span", "sup", "sub", "small", "big", "code", "tt", "s", "font", "cite", "em", "strong", "div", "center", "blockquote"])
                s = "<%s%s>%s</%s>" % (t, rng.choice(ATTRS) if rng.random() < 0.3 else "", sub, t)
            elif k == 5:
                s = "<ref%s>%s</ref>" % (rng.choice(["", ' name="n"', " group=g"]), sub)
            elif k == 6:
                s = "{{b|%s}}" % sub
            elif k == 7:
                s = "[[Image:x.jpg|thumb|%s]]" % sub
            else:
                s = ext_element(rng, depth + 1, budget // 2)
        else:
            s = atom(rng)
        if rng.random() < 0.6:
            s += " "
        out.append(s)
        n += len(s)
    return "".join(out)


def block(rng, depth, budget):
    out = []
    n = 0
    while n < budget:
        r = rng.randrange(12)
        b = max(4, min(budget - n, rng.choice([10, 20, 40, 80])))
        if r == 0:
            k = rng.randint(1, 7)
            k2 = k if rng.random() < 0.8 else rng.randint(1, 7)
            s = "%s %s %s\n" % ("=" * k, inline(rng, depth + 1, b // 2), "=" * k2)
        elif r == 1:
            lines = []
            pre = ""
            for _ in range(rng.randint(1, 5)):
                if rng.random() < 0.5 and len(pre) < MAXDEPTH - depth - 2:
                    pre += rng.choice("*#:;")
                elif rng.random() < 0.3:
                    pre = pre[:-1]
                elif rng.random() < 0.2:
                    pre = "".join(rng.choice("*#:;") for _ in range(len(pre)))
                lines.append((pre or rng.choice("*#:;")) + " " + inline(rng, depth + len(pre) + 1, b // 3).replace("\n", " "))
            s = "\n".join(lines) + "\n"
        elif r == 2 and depth < MAXDEPTH - 4:
            rows = []
            for _ in range(rng.randint(1, 3)):
                cells = []
                for _ in range(rng.randint(1, 3)):
                    c = rng.choice(["| ", "! ", "| a=b | ", '| style="x" | ', "|\n", "|%s | " % num_attr(rng, rng.choice(["colspan", "rowspan", "width"]))]) + (
                        inline(rng, depth + 3, b // 4) if rng.random() < 0.8 else "\n" + block(rng, depth + 3, b // 4))
                    cells.append(c)
                sep = rng.choice(["\n", " || ", " !! "])
                rows.append(rng.choice(["|-\n", "|- class=x\n", "", "|-%s\n" % num_attr(rng)]) + sep.join(cells))
            s = "{|%s\n%s%s\n%s\n" % (rng.choice(["", ' class="wikitable"', " border=1", num_attr(rng, rng.choice(["width", "border", "cellpadding"]))]), rng.choice(["", "|+ cap\n", "|+ a=b | cap\n"]),
                                      "\n".join(rows), rng.choice(["|}", "|}", "|}", ""]))
        elif r == 3 and depth < MAXDEPTH - 4:
            t = rng.choice(["div", "center", "blockquote", "ul", "ol", "dl", "table", "p"])
            inner = block(rng, depth + 2, b // 2)
            if t in ("ul", "ol"):
                inner = "<li>%s</li><li>%s" % (inline(rng, depth + 2, b // 4), inner)
            elif t == "dl":
                inner = "<dt>%s<dd>%s</dd>" % (inline(rng, depth + 2, b // 4), inner)
            elif t == "table":
                inner = "<caption>c</caption><tr><td>%s</td><th>%s<tr><td>x" % (inner, inline(rng, depth + 3, b // 4))
            s = "<%s>%s%s\n" % (t, inner, ("</%s>" % t) if rng.random() < 0.85 else "")
        elif r == 4:
            s = " " + inline(rng, depth + 1, b // 2).replace("\n", "\n ") + "\n"
        elif r == 5:
            s = rng.choice(["----\n", "\n\n", "\n", "<br/>", "<hr>", "<references/>\n", "__TOC__\n"])
        elif r == 6:
            s = ext_element(rng, depth + 1, b) + rng.choice(["", "\n"])
        else:
            s = inline(rng, depth + 1, b) + rng.choice(["\n", "\n\n", " "])
        out.append(s)
        n += len(s)
    return "".join(out)


def deep(rng, depth):
    """nesting stress: one construct nested `depth` (<= 40) deep"""
    k = rng.randrange(11)
    core = rng.choice(WORDS)
    if k == 0:
        t = rng.choice(["div", "span", "b", "i", "center", "blockquote", "ul", "ol", "table", "sup", "font", "dl", "li", "dd", "code", "p", "td", "tr", "small"])
        return ("<%s>" % t) * depth + core + ("</%s>" % t) * (depth if rng.random() < 0.7 else rng.randrange(depth + 1))
    if k == 1:
        return "".join("\n{|\n|" for _ in range(depth)) + core + "\n|}" * (depth if rng.random() < 0.7 else 0)
    if k == 2:
        return "[[A|" * depth + core + "]]" * depth
    if k == 3:
        return "".join("[[Image:x%d.jpg|thumb|" % i for i in range(depth)) + core + "]]" * depth
    if k == 4:
        return "".join(rng.choice("*#:;") for _ in range(depth)) + " " + core + "\n"
    if k == 5:
        return "<ref>" * depth + core + "</ref>" * depth
    if k == 6:
        return "{{b|" * depth + core + "}}" * depth
    if k == 7:
        tags = [rng.choice(["div", "span", "b", "i", "center", "ul", "li", "ol", "table", "tr", "td", "blockquote", "p", "dl", "dt", "dd"]) for _ in range(depth)]
        return "".join("<%s>" % t for t in tags) + core + "".join("</%s>" % t for t in reversed(tags))
    if k == 8:
        return "".join("\n" + "*" * (i + 1) + " x" for i in range(depth)) + "\n"
    if k == 9:
        return "".join("<%s>" % rng.choice(["poem", "ref", "gallery"]) for _ in range(depth)) + core
    return "".join("\n" + "=" * ((i % 6) + 1) + " h " + "=" * ((i % 6) + 1) + "\n" for i in range(depth))


_OPEN_RE = re.compile(r"<\s*([a-zA-Z][a-zA-Z0-9]*)[^<>]*?(/?)>|</\s*([a-zA-Z][a-zA-Z0-9]*)[^<>]*>|\{\||\|\}|\[\[|\]\]|\{\{|\}\}|\[|\]|^[*#:;]+|''+",
                      re.MULTILINE)


_COMMENT_RE = re.compile(r"<!--.*?-->", re.DOTALL)


def nesting(s):
    """nesting measure of the text and of the text with its comments removed (the parser strips <!-- --> first, which glues what stood
    on both sides: '*#:;<!-- c -->*#:;' is a list prefix of length 8)"""
    n = _nesting(s)
    if "<!--" in s:
        n = max(n, _nesting(_COMMENT_RE.sub("", s)))
    return n


def _nesting(s):
    """Conservative syntactic nesting measure: openers push per kind, a closer pops only its own kind
    (so unclosed inner constructs keep counting); a list prefix counts its length; an apostrophe run
    counts 2 (bold+italic) for the rest of its line."""
    counts = {}
    best = 0
    quote = 0
    last_nl = 0
    for m in _OPEN_RE.finditer(s):
        if s.find("\n", last_nl, m.start()) != -1:
            quote = 0
            last_nl = m.start()
        g = m.group(0)
        extra = 0
        if m.group(1):
            if not m.group(2):
                k = m.group(1).lower()
                counts[k] = counts.get(k, 0) + 1
        elif m.group(3):
            k = m.group(3).lower()
            if counts.get(k, 0) > 0:
                counts[k] -= 1
        elif g in ("{|", "[[", "{{", "["):
            counts[g] = counts.get(g, 0) + 1
        elif g in ("|}", "]]", "}}", "]"):
            o = {"|}": "{|", "]]": "[[", "}}": "{{", "]": "["}[g]
            if counts.get(o, 0) > 0:
                counts[o] -= 1
        elif g[0] == "'":
            quote = 2
        else:
            extra = len(g)
        d = sum(counts.values()) + quote + extra
        if d > best:
            best = d
    return best


def mutate(rng, s, maxlen):
    ops = rng.randint(1, 4)
    for _ in range(ops):
        if not s:
            s = atom(rng)
        k = rng.randrange(8)
        i = rng.randrange(len(s) + 1)
        j = min(len(s), i + rng.choice([1, 1, 2, 3, 5, 10, 30]))
        if k == 0:
            s = s[:i] + s[j:]
        elif k == 1:
            s = s[:i] + atom(rng) + s[i:]
        elif k == 2:
            s = s[:i] + s[i:j] * rng.choice([2, 3, 5]) + s[j:]
        elif k == 3:
            a = rng.randrange(len(s) + 1)
            s = s[:a] + s[i:j] + s[a:]
        elif k == 4:
            s = s[:i] + rng.choice(MARKUP) + s[j:]
        elif k == 5:
            s = s[:i] + html_tag(rng) + s[i:]
        elif k == 6:
            s = s[:i] + rng.choice(CONTROL + ENTITIES) + s[i:]
        else:
            s = s[:i] + "\n" + rng.choice(MARKUP) + s[i:]
    return s[:maxlen]


def token_soup(rng, maxlen):
    n = rng.choice([3, 8, 20, 60])
    out = []
    for _ in range(n):
        out.append(atom(rng) if rng.random() < 0.5 else rng.choice(MARKUP + [html_tag(rng)]))
        if rng.random() < 0.3:
            out.append(rng.choice([" ", "\n", ""]))
    return "".join(out)[:maxlen]


def alphabet():
    """every single alphabet token (used for the exhaustive singles/pairs repetition families)"""
    toks = list(MARKUP) + list(ENTITIES) + list(CONTROL) + LINKS[:12] + TEMPL_CALLS[:12] + ["a", " "]
    for t in ["b", "div", "ref", "table", "td", "li", "span", "br", "pre", "nowiki", "math", "gallery", "poem", "source", "timeline",
              "imagemap", "p", "ul", "h2", "caption", "references", "inputbox", "sup", "tr", "dd"]:
        toks += ["<%s>" % t, "</%s>" % t, "<%s/>" % t]
    return toks


def gen_case(rng, i, maxlen):
    """one search input: dict(raw, lang, db, kind)"""
    kind = rng.choice(["grammar", "grammar", "grammar", "mutation", "mutation", "soup", "deep", "repeat", "attrs", "quotes", "reparse", "uniq"])
    lang = LANGS[i % len(LANGS)]
    db = TEMPLATE_UNIVERSES[rng.randrange(len(TEMPLATE_UNIVERSES))]
    size = rng.choice([20, 60, 150, maxlen]) if maxlen <= 400 else rng.choice([60, 400, 1500, maxlen])
    for _attempt in range(20):
        if kind == "grammar":
            raw = block(rng, 0, size)
        elif kind == "mutation":
            raw = mutate(rng, block(rng, 0, size), maxlen)
        elif kind == "soup":
            raw = token_soup(rng, maxlen)
        elif kind == "attrs":
            raw = attr_case(rng, size)
        elif kind == "quotes":
            raw = quote_case(rng, maxlen)
            if rng.random() < 0.3:
                raw = block(rng, 0, size // 4) + "\n" + raw
        elif kind == "reparse":
            raw, db = reparse_case(rng, min(size, 100))
        elif kind == "uniq":
            raw, db = uniq_case(rng, min(size, 150))
        elif kind == "deep":
            raw = block(rng, 0, size // 4) + deep(rng, rng.choice([5, 20, 39, 40])) + block(rng, 0, size // 4)
        else:
            unit = "".join(rng.choice(alphabet()) for _ in range(rng.randint(1, 3)))
            raw = unit * max(1, size // max(1, len(unit)))
        raw = raw[:maxlen]
        if raw and nesting(raw) <= MAXDEPTH:
            break
    else:
        raw = "x"
    return {"raw": raw, "lang": lang, "db": db, "kind": kind}


# ---- documents for the tie of post_processors.remove_boilerplate (coq/C01/PassesPost.v): <div>s with every kind of class value (absent, stored
# as int by parse_params, str without / with the substring 'boilerplate') at every depth and position, among other tags, text and block structure
POST_DIV_ATTRS = ["", "", ' class=5', ' class="2024"', " class=' 7 '", ' class="5_0"', " class=٣", ' class="infobox"', ' class="boilerplate"',
                  ' class="x boilerplate-y"', ' class="Boilerplate"', " id=5", ' style="class:5"', ' class="" id="boilerplate"', " class=boilerplate",
                  ' class=5 class="boilerplate"', ' CLASS="boilerplate"', ' class="5 boilerplate"']


def post_doc(rng, depth=0):
    parts = []
    for _ in range(rng.choice([1, 1, 2, 3, 4])):
        k = rng.randrange(9)
        if depth >= 4 or k <= 1:
            parts.append(rng.choice(["x", "y z", "''i''", "[[A]]"]))
        elif k <= 4:
            parts.append("<div%s>%s%s" % (rng.choice(POST_DIV_ATTRS), post_doc(rng, depth + 1), "</div>" if rng.random() < 0.9 else ""))
        elif k == 5:
            parts.append("<%s%s>%s</%s>" % ((lambda t: (t, rng.choice(POST_DIV_ATTRS), post_doc(rng, depth + 1), t))(rng.choice(["span", "center", "b", "blockquote"]))))
        elif k == 6:
            parts.append("\n* %s\n* %s\n" % (post_doc(rng, depth + 2).replace("\n", " "), rng.choice(["b", "<div class=3>c</div>"])))
        elif k == 7:
            parts.append("\n{|\n|-\n|\n%s\n| %s\n|}\n" % (post_doc(rng, depth + 2), rng.choice(["c", "<div class='boilerplate'>d</div>"])))
        else:
            parts.append(rng.choice(["<ref>%s</ref>", "\n== h ==\n%s\n", "[[Image:x.jpg|thumb|%s]]", "\n\n%s\n\n"]) % post_doc(rng, depth + 2).replace("\n", " "))
    return rng.choice(["", " ", "\n"]).join(parts)
