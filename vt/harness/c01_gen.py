"""C01 input generator (pure Python, no mwlib import): grammar-based and mutation-based strings over
the full wikitext alphabet, template universes, and a syntactic nesting measure.

Everything is driven by the `random.Random` handed in, so a fixed VERIF_SEED gives the same inputs."""
import re

LANGS = ["de", "en", "es", "fr", "it", "ja", "nl", "no", "pl", "pt", "simple", "sv"]

# HTML-ish tags the scanner's CompatScanner lets through (utoken.py allowed_tags) + table tags
HTML_TAGS = ["abbr", "b", "big", "blockquote", "br", "center", "cite", "code", "del", "div", "em", "font",
             "h1", "h2", "h3", "h4", "h5", "h6", "hr", "i", "index", "inputbox", "ins", "kbd", "li", "ol", "p",
             "references", "rss", "s", "small", "span", "strike", "strong", "sub", "sup", "caption",
             "table", "td", "th", "tr", "tt", "u", "ul", "var", "dl", "dt", "dd", "mapframe", "startfeed", "endfeed"]
# extension tags replaced by uniq markers (uniq.py) + a sample of the tagext registry
EXT_TAGS = ["ref", "gallery", "math", "source", "timeline", "imagemap", "poem", "nowiki", "pre", "pages",
            "syntaxhighlight", "rot13", "idl", "rdf", "time", "hiero", "section", "listing", "see", "buy", "sleep",
            "chem", "graph", "templatestyles", "categorytree"]
ATTRS = ["", ' style="display:inline"', ' style="display:block"', ' class="x"', ' name="n1"', " name=n1", ' style="',
         " =", ' a="b" c=\'d\' e=f', ' style="color:red;display: Block"', " lang=python", " enclose=none", ' from="1" to="3"',
         ' from="A" to="B" index="I"', " colspan=2", ' rowspan="x"', " style=x:y;;:", ' group="g"', " /", ' x="&#99999999999;"',
         ' style="width:1e999px"', " 0=1", ' align="right"', " width=100%"]
ENTITIES = ["&amp;", "&lt;", "&nbsp;", "&bogus;", "&;", "&#65;", "&#x41;", "&#X41;", "&#0;", "&#x0;", "&#-1;", "&#x110000;",
            "&#1114112;", "&#99999999999;", "&#xFFFFFFFFF;", "&#xD800;", "&#55296;", "&#x;", "&#;", "&#x1F600;", "&#12345678;",
            "&#9999999999999999999999999999;", "&#x-1;", "&# 1;", "&#1_0;", "&#x1_0;", "&#٣;", "&#+1;", "&#xg;", "&#10;", "&#13;",
            "&#x7f;", "&#127;", "&zwnj;", "&#8206;"]
MARKUP = ["{|", "|}", "|-", "|+", "||", "!!", "|", "!", "[[", "]]", "[", "]", "''", "'''", "''''", "'''''", "''''''", "'",
          "=", "==", "===", "======", "=======", "\n", "\n\n", "\n \n", "\n ", " ", "*", "#", ":", ";", "*#:;", "----", "-----",
          "{{", "}}", "{{{", "}}}", "{{{1}}}", "{{{1|d}}}", "<", ">", "</", "/>", "<!--", "-->", "<!-- c -->", "~~~~", "\t", "\r", "\r\n",
          "__TOC__", "__NOTOC__", "__FORCETOC__", "__NOEDITSECTION__", "__START__", "__END__",
          "http://x.org/a?b=c&d", "https://x.org", "[http://x.org]", "[http://x.org label]", "[https://x.org/''a'' b]",
          "mailto:a@b.org", "[mailto:a@b.org m]", "irc://x.org/c", "news:a.b", "ftp://x.org/f", "[//x.org/p rel]", "[ftp://x y]",
          "http://", "[http://", "[[http://x.org]]", "[[http://x.org|l]]", "ISBN 3-16-148410-0", "RFC 123",
          "\x7fUNIQ-ref-0-0123456789abcdef-QINU\x7f", "\x7fUNIQ-", "-QINU\x7f", "", "\x7f"]
LINKS = ["[[A]]", "[[A|b]]", "[[A|]]", "[[|b]]", "[[:A]]", "[[/sub]]", "[[/sub/]]", "[[../]]", "[[A#s|b]]", "[[#s]]",
         "[[Bild:x.jpg]]", "[[Image:x.png|thumb|100px|cap]]", "[[File:x.svg|thumb|left|200x100px|alt=a|link=B|''cap'' [[C]]]]",
         "[[Image:x.png|frame|right|upright=1.5|x]]", "[[File:x.png|border|frameless|upright|center|none|1e5px|xpx|100xpx]]",
         "[[Kategorie:K]]", "[[Category:K|s]]", "[[:Category:K]]", "[[en:X]]", "[[:en:X]]", "[[fr:]]", "[[wikt:w]]",
         "[[wikipedia:de:X]]", "[[Vorlage:T]]", "[[Template:T]]", "[[Special:S]]", "[[Media:x.ogg]]", "[[Diskussion:D]]",
         "[[‎A‏]]", "[[ ]]", "[[]]", "[[:]]", "[[::]]", "[[A\nB]]", "[[A|b\nc]]", "[[A|[[B]]]]", "[[Image:x.jpg|[[B|c]]|[http://x y]]]",
         "[[画像:x.jpg|サムネイル]]", "[[Fichier:x.png|vignette|gauche]]", "[[Plik:x.png|mały]]", "[[Immagine:x.png|miniatura]]",
         "[[Archivo:x.png|miniaturadeimagen]]", "[[Bestand:x.png|miniatuur]]", "[[Fil:x.png|miniatyr]]", "[[Ficheiro:x.png|miniaturadaimagem]]"]
TEMPL_CALLS = ["{{a}}", "{{b|x}}", "{{c|1=y|n=z}}", "{{d}}", "{{e|{{a}}}}", "{{rec}}", "{{nosuch}}", "{{:Main page}}", "{{a|", "{{#if:x|y|z}}",
               "{{#if:|y|{{a}}}}", "{{#ifeq:a|b|c|d}}", "{{#switch:x|x=1|y=2|#default=3}}", "{{#expr:1+2*3}}", "{{#expr:1/0}}", "{{#expr:(}}",
               "{{#tag:ref|inner|name=n}}", "{{#tag:math|x^2}}", "{{#tag:gallery|Image:x.jpg}}", "{{#tag:nowiki|''x''}}", "{{#time:Y}}",
               "{{lc:ABC}}", "{{uc:abc}}", "{{ucfirst:abc}}", "{{padleft:x|5|0}}", "{{PAGENAME}}", "{{NAMESPACE}}", "{{FULLPAGENAME}}",
               "{{SERVER}}", "{{urlencode:a b}}", "{{anchorencode:a b}}", "{{ns:1}}", "{{ns:Image}}", "{{fullurl:X|a=b}}", "{{localurl:X}}",
               "{{CURRENTYEAR}}", "{{REVISIONID}}", "{{NUMBEROFARTICLES}}", "{{DEFAULTSORT:x}}", "{{DISPLAYTITLE:''t''}}", "{{int:x}}",
               "{{subst:a}}", "{{msg:a}}", "{{!}}", "{{=}}", "{{#titleparts:a/b/c|1|2}}", "{{#ifexist:X|y|n}}", "{{#iferror:{{#expr:1/0}}|e|ok}}",
               "{{#language:de}}", "{{formatnum:1234.5}}", "{{plural:2|a|b}}", "{{grammar:x|y}}", "{{#rel2abs:../x}}", "{{#lst:A|s}}"]
CONTROL = ["\x00", "\x01", "\x08", "\x0b", "\x0c", "\x1b", "\x1f", "\x7f", "\x85", "\xa0", " ", " ", "‎", "‏",
           "‮", "﻿", "�", "￿", "", "\U0001F600", "\U00010000", "\U0010FFFF", "\U000E0001", "á", "١", "ß", "İ", "ǅ"]
WORDS = ["a", "b", "foo", "Bar", "x y", "1", "42", "ä", "日本", "Foo bar baz", "text", ".", ",", "-", "a=b", "a:b", "a|b", "a!b", "x.jpg", "100px", "thumb"]

IMAGEMAP_BODIES = ["\nImage:x.jpg|100px\nrect 0 0 10 10 [[A]]\ncircle 5 5 3 [[B|b]]\npoly 0 0 1 1 2 0 [[C]]\ndefault [[D]]\ndesc bottom-left\n",
                   "Image:x.jpg", "\n", "rect 0 0 [[A]]", "\nImage:x.jpg\nrect a b c d [[A]]\n", "\nImage:x.jpg\npoly 1 [[A]]\n# c\n",
                   "\nImage:x.jpg\ncircle 99999999999999999999 1 1 [[A]]\n", "\nImage:x.jpg\ndefault\ndesc none\n", "\nx\nrect 1 2 3 4 [http://x y]\n",
                   "\nImage:x.jpg|thumb|''c''\nrect 1 2 3 4 5 [[A]]\n\x00"]
TIMELINE_BODIES = ["\nImageSize = width:100 height:100\nPlotArea = left:10\nPeriod = from:0 till:10\nTimeAxis = orientation:horizontal\n", "", "x", "\x00\n", "{{a}}"]
GALLERY_BODIES = ["\nImage:x.jpg|cap ''i''\nBild:y.png\nnot an image\n[[A]]\n", "\n|\n", "\n]]\n", "\n[[\n", "\nImage:x.jpg|[[A|b]] {{a}}\n", "\n:x\n", "\n\x7f\n",
                  "\nFile:x|thumb|<ref>r</ref>\n", "\nImage:a]][[Image:b\n", "\nen:X\n", "\n/sub\n"]
MATH_BODIES = ["x^2", "\\frac{1}{2}", "", "\\", "{", "<", "&#99999999999;", "\n"]
POEM_BODIES = ["\nline1\n line2\n\n:line3\n", "", " ", "\n\n\n", "* a\n# b\n{|\n|x\n|}", "''a\n'''b", "<ref>x</ref>", "{{a}}"]
SOURCE_BODIES = ["print('x')", "\n<b>\n", "", "&amp;", "{{a}}", "\x00"]
PAGES_ATTRS = [' from="1" to="3" index="X"', ' from="a" to="b"', ' from=3 to=1', ' from="99999999999999999999" to="1"', " from=1", "", ' from="1" to="2000"', ' from=1 to=300000 index=I']

TEMPLATE_UNIVERSES = [
    None,
    {},
    {"a": "A-text", "b": "''{{{1}}}''", "c": "{{{1|}}} {{{n}}}", "d": "* i1\n* i2\n", "e": "[[{{{1}}}]]", "rec": "{{rec}}"},
    {"a": "{|\n|-\n| {{{1|c}}}\n|}", "b": "<ref>{{{1}}}</ref>", "c": "== {{{1}}} ==\n", "d": "{{a}}{{a}}", "e": "<div>", "rec": "x{{rec|{{rec}}}}"},
    {"a": "</div>", "b": "|}", "c": "{|", "d": "]]", "e": "[[", "rec": "{{d}}{{e}}"},
    {"a": "<gallery>\nImage:x.jpg|{{{1}}}\n</gallery>", "b": "<imagemap>\nImage:x.jpg\nrect 0 0 1 1 [[{{{1}}}]]\n</imagemap>",
     "c": "<poem>\n{{{1}}}\n {{{n}}}\n</poem>", "d": "<timeline>\n{{{1}}}\n</timeline>", "e": "<pages from={{{1}}} to=2 index=I />", "rec": "<ref>{{rec}}</ref>",
     "Page:I/1": "p1 {{a}}", "Page:I/2": "p2"},
    {"a": "&#99999999999;", "b": "\x00{{{1}}}\x7f", "c": "'''''{{{1}}}''", "d": "\n\n\n", "e": "{{{{{1}}}}}", "rec": "{{e|rec}}",
     "MediaWiki:x": "m"},
    {"a": "#REDIRECT [[b]]", "b": "{{#if:{{{1|}}}|{{b}}|<b>}}", "c": "<nowiki>{{{1}}}</nowiki>", "d": "<includeonly>i</includeonly><noinclude>n</noinclude><onlyinclude>o</onlyinclude>",
     "e": "{{#switch:{{{1}}}|a={{a}}|#default={{d}}}}", "rec": "{{#tag:ref|{{rec}}}}"},
]


# ---- attribute values: the number-like corner of Unicode (parse_params hands every attribute value except style to int())
NUM_ASCII = ["0", "1", "7", "12", "007", "100", "9" * 30]
# str.isdigit() but not str.isdecimal(): int() rejects them
NUM_DIGIT_ONLY = ["²", "³", "¹", "⁰", "⁴", "₂", "①", "⑨", "⓪", "⒈", "❶", "፩",
                  "፫", "\U00010a40", "\U0001f101"]
# decimal digits of other scripts (incl. non-BMP): int() accepts them
NUM_DECIMAL = ["٣", "۴", "३", "１", "\U0001d7ce", "\U00011066", "߁", "๓"]
# numeric but not digits: fractions, roman / ideographic / circled numbers
NUM_OTHER = ["½", "¼", "Ⅷ", "ↂ", "〇", "五", "൰", "\U00010107", "㊿", "⅓"]
NUM_CHARS = NUM_ASCII[:3] + NUM_DIGIT_ONLY + NUM_DECIMAL + NUM_OTHER
NUM_SIGNS = ["", "", "+", "-", "−", "±", "﹣", "－", "＋", "+-", "--"]
NUM_SPACES = ["", "", " ", "\t", "\xa0", " ", "　", "​", "\n", "\x0c", "\x1f", "\x85", " "]
NUM_SUFFIX = ["", "", "", "%", "px", "em", ".5", "e3", "_0", ",0", "x", "_", "#", ":"]
ATTR_NAMES = ["title", "id", "class", "name", "width", "height", "colspan", "rowspan", "align", "border", "start", "value", "size",
              "cellpadding", "group", "from", "to", "lang", "widths", "perrow", "Style", "ä", "x1"]


def num_value(rng):
    """sign? number-like chars{1..3} suffix?, with whitespace variants around / after the sign"""
    pool = rng.choice([NUM_CHARS, NUM_DIGIT_ONLY, NUM_DECIMAL, NUM_OTHER, NUM_ASCII])
    body = "".join(rng.choice(pool if rng.random() < 0.8 else NUM_CHARS) for _ in range(rng.choice([1, 1, 1, 2, 3])))
    return (rng.choice(NUM_SPACES) + rng.choice(NUM_SIGNS) + (rng.choice(NUM_SPACES) if rng.random() < 0.1 else "") + body
            + rng.choice(NUM_SUFFIX) + rng.choice(NUM_SPACES))


def quote_value(v, q):
    """q: 0 = double quotes, 1 = single quotes, 2 = unquoted (the regex then takes the [\\w%:#]+ prefix of the value)"""
    if q == 0:
        return '"%s"' % v.replace('"', "")
    if q == 1:
        return "'%s'" % v.replace("'", "")
    return v


def num_attr(rng, name=None):
    return " %s%s=%s%s" % (name or rng.choice(ATTR_NAMES), rng.choice(["", "", " "]), rng.choice(["", "", " "]),
                           quote_value(num_value(rng), rng.randrange(3)))


# every construct whose attributes reach parse_params (utoken._analyze_html_tag, the four table modifier parsers, ParseUniq) or whose
# option values are parsed as numbers; %(a)s = attribute string (leading space), %(v)s = bare value
ATTR_CONTEXTS = [
    ("title", "a <span%(a)s>b</span> c"), ("id", "<div%(a)s>x</div>"), ("value", "<ol%(a)s><li%(a)s>x</li></ol>"), ("size", "<font%(a)s>x</font>"),
    ("colspan", "<table%(a)s><tr%(a)s><td%(a)s>x</td><th%(a)s>y</th></tr></table>"), ("clear", "x<br%(a)s/>y"),
    ("width", "{|%(a)s\n|-\n| c\n|}"), ("class", "{|\n|-%(a)s\n| c\n|}"), ("colspan", "{|\n|-\n|%(a)s| c\n!%(a)s| h\n|}"),
    ("rowspan", "{|\n|-\n|%(a)s| c ||%(a)s| d\n|}"), ("align", "{|\n|+%(a)s| cap\n|-\n| c\n|}"),
    ("name", "x<ref%(a)s>n</ref> y<ref%(a)s/>"), ("group", "<references%(a)s/>"), ("widths", "<gallery%(a)s>\nImage:x.jpg|c\n</gallery>"),
    ("line", "<source%(a)s>x</source>"), ("from", "<pages index=I%(a)s to=2 />"), ("compact", "<poem%(a)s>\nx\n</poem>"),
    ("name", "{{#tag:ref|x|name=%(v)s}}"), ("width", "<imagemap%(a)s>\nImage:x.jpg|%(v)spx\nrect 0 0 %(v)s 1 [[A]]\n</imagemap>"),
    ("upright", "[[Image:x.jpg|thumb|%(v)spx|upright=%(v)s|c]]"), ("h", "<h2%(a)s>x</h2>"), ("x", "<math%(a)s>x</math><timeline%(a)s>x</timeline>"),
]


def attr_family():
    """deterministic: every number-like character x every construct that takes attributes, with rotating sign / whitespace / quoting"""
    out = []
    k = 0
    for ch in NUM_CHARS:
        for name, ctx in ATTR_CONTEXTS:
            sign = NUM_SIGNS[k % 4]                       # "", "", "+", "-"
            sp = ["", "", " ", "\t"][(k // 4) % 4]
            v = sp + sign + ch + sp
            out.append(ctx % {"a": " %s=%s" % (name, quote_value(v, k % 3)), "v": v.strip()})
            k += 1
    return out


def attr_case(rng, size):
    """random: a few constructs with generated number-like attributes, embedded in grammar output"""
    parts = []
    for _ in range(rng.randint(1, 4)):
        name, ctx = rng.choice(ATTR_CONTEXTS)
        a = "".join(num_attr(rng, name if rng.random() < 0.5 else None) for _ in range(rng.choice([1, 1, 2, 3])))
        parts.append(ctx % {"a": a, "v": num_value(rng).strip()})
        if rng.random() < 0.4:
            parts.append(rng.choice(["\n", " ", "\n\n"]) + inline(rng, 1, size // 4))
    return rng.choice(["", "\n", "x\n"]).join(parts)


# ---- apostrophe runs: compute_path searches per line; its state space grows with the number of runs on ONE line
def quote_line(opener, lens, words=True, sep=" "):
    return opener + "".join(("%sw%d%s%s" % (sep, i, sep, "'" * n)) if words else (sep + "'" * n) for i, n in enumerate(lens))


QUOTE_OPENERS = ["", "'" * 2, "'" * 3, "'" * 4, "'" * 5]


def quote_family():
    """deterministic: lines with 10..60 runs of one length 2..6 after each kind of (un)balanced opener, plus alternating lengths"""
    out = []
    for opener in QUOTE_OPENERS:
        for k in (10, 20, 40, 60):
            for n in (2, 3, 4, 5, 6):
                out.append(quote_line(opener + "a", [n] * k))
            out.append(quote_line(opener + "a", [5, 3] * (k // 2)))
            out.append(quote_line(opener + "a", [5, 2, 6, 4] * (k // 4)))
    return out


def quote_case(rng, maxlen):
    k = rng.choice([10, 14, 18, 24, 32, 40, 60])
    prof = rng.choice([[5], [5], [2, 3], [2, 3, 5], [2, 3, 4, 5, 6], [5, 6], [4, 5], [3, 5], [2, 5], [5, 5, 5, 3], [6, 7, 9]])
    lens = [rng.choice(prof) for _ in range(k)]
    opener = rng.choice(QUOTE_OPENERS + ["* " + "'" * 2, "; " + "'" * 3, "== " + "'" * 3, "{|\n| " + "'" * 3, "[[A|" + "'" * 3, "<b>" + "'" * 2])
    sep = rng.choice([" ", " ", "", "x"])
    line = quote_line(opener + "a", lens, words=rng.random() < 0.7, sep=sep)
    if rng.random() < 0.3:
        line = line.replace("'" * 5, "{{q5}}")
    tail = rng.choice(["", "\n", "\n\nnext\n", " =="])
    return line + tail


for _u in TEMPLATE_UNIVERSES:
    if _u is not None:
        _u["q5"] = "'" * 5


def html_tag(rng, name=None, kind=None):
    name = name or rng.choice(HTML_TAGS + EXT_TAGS)
    kind = kind or rng.choice(["open", "open", "close", "self", "openattr"])
    if rng.random() < 0.05:
        name = name.upper()
    if kind == "open":
        return "<%s>" % name
    if kind == "close":
        return "</%s%s>" % (name, rng.choice(["", "", " ", "\n"]))
    attrs = rng.choice(ATTRS) if rng.random() < 0.75 else "".join(num_attr(rng) for _ in range(rng.choice([1, 1, 2])))
    if kind == "self":
        return "<%s%s/>" % (name, attrs)
    return "<%s%s>" % (name, attrs)


def ext_element(rng, depth, budget):
    name = rng.choice(EXT_TAGS)
    if name == "imagemap":
        body = rng.choice(IMAGEMAP_BODIES)
    elif name == "timeline":
        body = rng.choice(TIMELINE_BODIES)
    elif name == "gallery":
        body = rng.choice(GALLERY_BODIES)
    elif name == "math":
        body = rng.choice(MATH_BODIES)
    elif name == "poem":
        body = rng.choice(POEM_BODIES)
    elif name in ("source", "syntaxhighlight", "pre", "nowiki"):
        body = rng.choice(SOURCE_BODIES + [inline(rng, depth + 1, budget // 2)])
    elif name == "pages":
        return "<pages%s />" % rng.choice(PAGES_ATTRS)
    else:
        body = inline(rng, depth + 1, budget // 2) if rng.random() < 0.7 else block(rng, depth + 1, budget // 2)
    attr = (rng.choice(ATTRS) if rng.random() < 0.75 else num_attr(rng)) if rng.random() < 0.4 else ""
    close = "</%s>" % name if rng.random() < 0.9 else ""
    return "<%s%s>%s%s" % (name, attr, body, close)


MAXDEPTH = 40


def atom(rng):
    r = rng.random()
    if r < 0.45:
        return rng.choice(WORDS)
    if r < 0.55:
        return rng.choice(ENTITIES)
    if r < 0.62:
        return rng.choice(CONTROL)
    if r < 0.72:
        return rng.choice(LINKS)
    if r < 0.80:
        return rng.choice(TEMPL_CALLS)
    if r < 0.92:
        return rng.choice(MARKUP)
    return html_tag(rng)


def inline(rng, depth, budget):
    """inline run of roughly `budget` characters"""
    out = []
    n = 0
    while n < budget:
        r = rng.random()
        if depth < MAXDEPTH - 2 and budget > 8 and r < 0.30:
            sub = inline(rng, depth + 1, max(2, budget // rng.choice([2, 3, 4])))
            k = rng.randrange(9)
            if k == 0:
                s = "''%s''" % sub
            elif k == 1:
                s = "'''%s'''" % sub
            elif k == 2:
                s = "[[A|%s]]" % sub
            elif k == 3:
                s = "[http://x.org %s]" % sub
            elif k == 4:
                t = rng.choice(["b", "i", "u", "span", "sup", "sub", "small", "big", "code", "tt", "s", "font", "cite", "em", "strong", "div", "center", "blockquote"])
                s = "<%s%s>%s</%s>" % (t, rng.choice(ATTRS) if rng.random() < 0.3 else "", sub, t)
            elif k == 5:
                s = "<ref%s>%s</ref>" % (rng.choice(["", ' name="n"', " group=g"]), sub)
            elif k == 6:
                s = "{{b|%s}}" % sub
            elif k == 7:
                s = "[[Image:x.jpg|thumb|%s]]" % sub
            else:
                s = ext_element(rng, depth + 1, budget // 2)
        else:
            s = atom(rng)
        if rng.random() < 0.6:
            s += " "
        out.append(s)
        n += len(s)
    return "".join(out)


def block(rng, depth, budget):
    out = []
    n = 0
    while n < budget:
        r = rng.randrange(12)
        b = max(4, min(budget - n, rng.choice([10, 20, 40, 80])))
        if r == 0:
            k = rng.randint(1, 7)
            k2 = k if rng.random() < 0.8 else rng.randint(1, 7)
            s = "%s %s %s\n" % ("=" * k, inline(rng, depth + 1, b // 2), "=" * k2)
        elif r == 1:
            lines = []
            pre = ""
            for _ in range(rng.randint(1, 5)):
                if rng.random() < 0.5 and len(pre) < MAXDEPTH - depth - 2:
                    pre += rng.choice("*#:;")
                elif rng.random() < 0.3:
                    pre = pre[:-1]
                elif rng.random() < 0.2:
                    pre = "".join(rng.choice("*#:;") for _ in range(len(pre)))
                lines.append((pre or rng.choice("*#:;")) + " " + inline(rng, depth + len(pre) + 1, b // 3).replace("\n", " "))
            s = "\n".join(lines) + "\n"
        elif r == 2 and depth < MAXDEPTH - 4:
            rows = []
            for _ in range(rng.randint(1, 3)):
                cells = []
                for _ in range(rng.randint(1, 3)):
                    c = rng.choice(["| ", "! ", "| a=b | ", '| style="x" | ', "|\n", "|%s | " % num_attr(rng, rng.choice(["colspan", "rowspan", "width"]))]) + (
                        inline(rng, depth + 3, b // 4) if rng.random() < 0.8 else "\n" + block(rng, depth + 3, b // 4))
                    cells.append(c)
                sep = rng.choice(["\n", " || ", " !! "])
                rows.append(rng.choice(["|-\n", "|- class=x\n", "", "|-%s\n" % num_attr(rng)]) + sep.join(cells))
            s = "{|%s\n%s%s\n%s\n" % (rng.choice(["", ' class="wikitable"', " border=1", num_attr(rng, rng.choice(["width", "border", "cellpadding"]))]), rng.choice(["", "|+ cap\n", "|+ a=b | cap\n"]),
                                      "\n".join(rows), rng.choice(["|}", "|}", "|}", ""]))
        elif r == 3 and depth < MAXDEPTH - 4:
            t = rng.choice(["div", "center", "blockquote", "ul", "ol", "dl", "table", "p"])
            inner = block(rng, depth + 2, b // 2)
            if t in ("ul", "ol"):
                inner = "<li>%s</li><li>%s" % (inline(rng, depth + 2, b // 4), inner)
            elif t == "dl":
                inner = "<dt>%s<dd>%s</dd>" % (inline(rng, depth + 2, b // 4), inner)
            elif t == "table":
                inner = "<caption>c</caption><tr><td>%s</td><th>%s<tr><td>x" % (inner, inline(rng, depth + 3, b // 4))
            s = "<%s>%s%s\n" % (t, inner, ("</%s>" % t) if rng.random() < 0.85 else "")
        elif r == 4:
            s = " " + inline(rng, depth + 1, b // 2).replace("\n", "\n ") + "\n"
        elif r == 5:
            s = rng.choice(["----\n", "\n\n", "\n", "<br/>", "<hr>", "<references/>\n", "__TOC__\n"])
        elif r == 6:
            s = ext_element(rng, depth + 1, b) + rng.choice(["", "\n"])
        else:
            s = inline(rng, depth + 1, b) + rng.choice(["\n", "\n\n", " "])
        out.append(s)
        n += len(s)
    return "".join(out)


def deep(rng, depth):
    """nesting stress: one construct nested `depth` (<= 40) deep"""
    k = rng.randrange(11)
    core = rng.choice(WORDS)
    if k == 0:
        t = rng.choice(["div", "span", "b", "i", "center", "blockquote", "ul", "ol", "table", "sup", "font", "dl", "li", "dd", "code", "p", "td", "tr", "small"])
        return ("<%s>" % t) * depth + core + ("</%s>" % t) * (depth if rng.random() < 0.7 else rng.randrange(depth + 1))
    if k == 1:
        return "".join("\n{|\n|" for _ in range(depth)) + core + "\n|}" * (depth if rng.random() < 0.7 else 0)
    if k == 2:
        return "[[A|" * depth + core + "]]" * depth
    if k == 3:
        return "".join("[[Image:x%d.jpg|thumb|" % i for i in range(depth)) + core + "]]" * depth
    if k == 4:
        return "".join(rng.choice("*#:;") for _ in range(depth)) + " " + core + "\n"
    if k == 5:
        return "<ref>" * depth + core + "</ref>" * depth
    if k == 6:
        return "{{b|" * depth + core + "}}" * depth
    if k == 7:
        tags = [rng.choice(["div", "span", "b", "i", "center", "ul", "li", "ol", "table", "tr", "td", "blockquote", "p", "dl", "dt", "dd"]) for _ in range(depth)]
        return "".join("<%s>" % t for t in tags) + core + "".join("</%s>" % t for t in reversed(tags))
    if k == 8:
        return "".join("\n" + "*" * (i + 1) + " x" for i in range(depth)) + "\n"
    if k == 9:
        return "".join("<%s>" % rng.choice(["poem", "ref", "gallery"]) for _ in range(depth)) + core
    return "".join("\n" + "=" * ((i % 6) + 1) + " h " + "=" * ((i % 6) + 1) + "\n" for i in range(depth))


_OPEN_RE = re.compile(r"<\s*([a-zA-Z][a-zA-Z0-9]*)[^<>]*?(/?)>|</\s*([a-zA-Z][a-zA-Z0-9]*)[^<>]*>|\{\||\|\}|\[\[|\]\]|\{\{|\}\}|\[|\]|^[*#:;]+|''+",
                      re.MULTILINE)


def nesting(s):
    """Conservative syntactic nesting measure: openers push per kind, a closer pops only its own kind
    (so unclosed inner constructs keep counting); a list prefix counts its length; an apostrophe run
    counts 2 (bold+italic) for the rest of its line."""
    counts = {}
    best = 0
    quote = 0
    last_nl = 0
    for m in _OPEN_RE.finditer(s):
        if s.find("\n", last_nl, m.start()) != -1:
            quote = 0
            last_nl = m.start()
        g = m.group(0)
        extra = 0
        if m.group(1):
            if not m.group(2):
                k = m.group(1).lower()
                counts[k] = counts.get(k, 0) + 1
        elif m.group(3):
            k = m.group(3).lower()
            if counts.get(k, 0) > 0:
                counts[k] -= 1
        elif g in ("{|", "[[", "{{", "["):
            counts[g] = counts.get(g, 0) + 1
        elif g in ("|}", "]]", "}}", "]"):
            o = {"|}": "{|", "]]": "[[", "}}": "{{", "]": "["}[g]
            if counts.get(o, 0) > 0:
                counts[o] -= 1
        elif g[0] == "'":
            quote = 2
        else:
            extra = len(g)
        d = sum(counts.values()) + quote + extra
        if d > best:
            best = d
    return best


def mutate(rng, s, maxlen):
    ops = rng.randint(1, 4)
    for _ in range(ops):
        if not s:
            s = atom(rng)
        k = rng.randrange(8)
        i = rng.randrange(len(s) + 1)
        j = min(len(s), i + rng.choice([1, 1, 2, 3, 5, 10, 30]))
        if k == 0:
            s = s[:i] + s[j:]
        elif k == 1:
            s = s[:i] + atom(rng) + s[i:]
        elif k == 2:
            s = s[:i] + s[i:j] * rng.choice([2, 3, 5]) + s[j:]
        elif k == 3:
            a = rng.randrange(len(s) + 1)
            s = s[:a] + s[i:j] + s[a:]
        elif k == 4:
            s = s[:i] + rng.choice(MARKUP) + s[j:]
        elif k == 5:
            s = s[:i] + html_tag(rng) + s[i:]
        elif k == 6:
            s = s[:i] + rng.choice(CONTROL + ENTITIES) + s[i:]
        else:
            s = s[:i] + "\n" + rng.choice(MARKUP) + s[i:]
    return s[:maxlen]


def token_soup(rng, maxlen):
    n = rng.choice([3, 8, 20, 60])
    out = []
    for _ in range(n):
        out.append(atom(rng) if rng.random() < 0.5 else rng.choice(MARKUP + [html_tag(rng)]))
        if rng.random() < 0.3:
            out.append(rng.choice([" ", "\n", ""]))
    return "".join(out)[:maxlen]


def alphabet():
    """every single alphabet token (used for the exhaustive singles/pairs repetition families)"""
    toks = list(MARKUP) + list(ENTITIES) + list(CONTROL) + LINKS[:12] + TEMPL_CALLS[:12] + ["a", " "]
    for t in ["b", "div", "ref", "table", "td", "li", "span", "br", "pre", "nowiki", "math", "gallery", "poem", "source", "timeline",
              "imagemap", "p", "ul", "h2", "caption", "references", "inputbox", "sup", "tr", "dd"]:
        toks += ["<%s>" % t, "</%s>" % t, "<%s/>" % t]
    return toks


def gen_case(rng, i, maxlen):
    """one search input: dict(raw, lang, db, kind)"""
    kind = rng.choice(["grammar", "grammar", "grammar", "mutation", "mutation", "soup", "deep", "repeat", "attrs", "quotes"])
    lang = LANGS[i % len(LANGS)]
    db = TEMPLATE_UNIVERSES[rng.randrange(len(TEMPLATE_UNIVERSES))]
    size = rng.choice([20, 60, 150, maxlen]) if maxlen <= 400 else rng.choice([60, 400, 1500, maxlen])
    for _attempt in range(20):
        if kind == "grammar":
            raw = block(rng, 0, size)
        elif kind == "mutation":
            raw = mutate(rng, block(rng, 0, size), maxlen)
        elif kind == "soup":
            raw = token_soup(rng, maxlen)
        elif kind == "attrs":
            raw = attr_case(rng, size)
        elif kind == "quotes":
            raw = quote_case(rng, maxlen)
            if rng.random() < 0.3:
                raw = block(rng, 0, size // 4) + "\n" + raw
        elif kind == "deep":
            raw = block(rng, 0, size // 4) + deep(rng, rng.choice([5, 20, 39, 40])) + block(rng, 0, size // 4)
        else:
            unit = "".join(rng.choice(alphabet()) for _ in range(rng.randint(1, 3)))
            raw = unit * max(1, size // max(1, len(unit)))
        raw = raw[:maxlen]
        if raw and nesting(raw) <= MAXDEPTH:
            break
    else:
        raw = "x"
    return {"raw": raw, "lang": lang, "db": db, "kind": kind}
