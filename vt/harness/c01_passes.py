"""C01: the REAL index-walking passes of mwlib.parser.refine.core on abstract token lists.

stdin : JSON lines {"id":.., "k":"S|L|P|Q|U|F|C|R|T", "toks":[codes]}    (codes: see ocaml/c01p/driver.ml; F = ParsePreformatted)
stdout: one JSON line each:
        {"id", "out": <sexp, same format as the driver>, "iters": <loop iterations>, "cp": <compute_path table, Q only>}
      | {"id", "exc": "<ExcType>: msg"}

Loop iterations are counted with a list subclass whose __len__ counts its calls: every modelled loop evaluates
len(tokens) exactly once per loop test, so iterations = calls - 1 (ParseSections: one more call after the loop,
`create(current, tokens, sections, len(tokens))`)."""
import json
import logging
import signal
import sys
import warnings

warnings.simplefilter("ignore")
logging.disable(logging.CRITICAL)
from mwlib.parser import expander  # noqa: E402,F401
from mwlib.parser.refine import core  # noqa: E402
from mwlib.parser.refine import parse_table  # noqa: E402

T = core.Token
PFX = ":*#;"
DTAGS = {"q": "blockquote", "t": "table", "l": "timeline", "d": "div", "s": "span"}


# token codes of the table passes (C R T), see ocaml/c01p/driver.ml
COLUMN_TEXT = {"|1": "|", "!1": " !", "|2": "||", "!2": "!!", "|!": "|!"}
COLUMN_NAME = {"|": "|1", "!": "!1", "||": "|2", "!!": "!2", "|!": "|!"}
TABLE_CODES = {
    "_": lambda i: T(type=T.t_text, text=" ", aid=i),
    "td": lambda i: T(type=T.t_html_tag, rawtagname="td", text="<td>", aid=i),
    "th": lambda i: T(type=T.t_html_tag, rawtagname="th", text="<th>", aid=i),
    "/td": lambda i: T(type=T.t_html_tag_end, rawtagname="td", text="</td>", aid=i),
    "/th": lambda i: T(type=T.t_html_tag_end, rawtagname="th", text="</th>", aid=i),
    "r": lambda i: T(type=T.t_row, text="|-", aid=i),
    "tr": lambda i: T(type=T.t_html_tag, rawtagname="tr", text="<tr>", aid=i),
    "/tr": lambda i: T(type=T.t_html_tag_end, rawtagname="tr", text="</tr>", aid=i),
    "{": lambda i: T(type=T.t_begin_table, text=" {|", aid=i),
    "tb": lambda i: T(type=T.t_html_tag, rawtagname="table", text="<table>", aid=i),
    "}": lambda i: T(type=T.t_end_table, text="|}", aid=i),
    "/table": lambda i: T(type=T.t_html_tag_end, rawtagname="table", text="</table>", aid=i),
    "+": lambda i: T(type=T.t_tablecaption, text="|+", aid=i),
    "|": lambda i: T(type=T.t_special, text="|", aid=i),
    "[[": lambda i: T(type=T.t_2box_open, text="[[", aid=i),
    "ref": lambda i: T(type=T.t_complex_tag, tagname="ref", children=[], aid=i),
}
for _c, _t in COLUMN_TEXT.items():
    TABLE_CODES[_c] = (lambda t: lambda i: T(type=T.t_column, text=t, aid=i))(_t)


class LoopBudgetExceeded(Exception):
    """the loop test of the pass was evaluated far more often than any terminating run can (fuel <= 4*len+1)"""


class CountingList(list):
    """list whose len() calls are counted (slices of it are plain lists); a pass that stops advancing is cut off
    deterministically after 8*len+64 loop tests instead of hanging the harness"""
    calls = 0
    budget = None

    def __len__(self):
        self.calls += 1
        if self.budget is not None and self.calls > self.budget:
            raise LoopBudgetExceeded("more than %d loop tests" % self.budget)
        return list.__len__(self)


def build(code, i):
    c0 = code[:1]
    if code == "o":
        return T(type=T.t_text, text="t%d" % i, aid=i)
    if code == "n":
        return T(type=T.t_newline, text="\n", aid=i)
    if code == "b":
        return T(type=T.t_break, text="\n\n", aid=i)
    if code == "u":
        return T(type=T.t_urllink, text="[http://x%d" % i, aid=i)
    if code == "]":
        return T(type=T.t_special, text="]", aid=i)
    if code == "2":
        return T(type=T.t_2box_close, text="]]", aid=i)
    if code == ":":
        return T(type=T.t_special, text=":", aid=i)
    if code in ("/ul", "/ol"):
        return T(type=T.t_html_tag_end, rawtagname=code[1:], text="</ul>", aid=i)
    if code == "B":
        return T(type=T.t_text, text="B", blocknode=True, aid=i)
    if code in TABLE_CODES:
        return TABLE_CODES[code](i)
    if code == "w":
        return T(type=T.t_pre, text=" ", aid=i)
    if code == "F":
        return T(type=T.t_complex_preformatted, children=[], blocknode=True, aid=i)
    if c0 == "D":
        return T(type=T.t_complex_tag, tagname=DTAGS[code[1:]], children=[], aid=i)
    if c0 == "s":
        return T(type=T.t_section, text="=" * int(code[1:]), aid=i)
    if c0 == "e":
        return T(type=T.t_section_end, text="=" * int(code[1:]), aid=i)
    if c0 == "q":
        return T(type=T.t_singlequote, text="'" * int(code[1:]), aid=i)
    if c0 == "i":
        return T(type=T.t_item, text=code[1:], aid=i)
    if c0 == "c":
        return T(type=T.t_colon, text=code[1:], aid=i)
    raise ValueError("bad code %r" % code)


def pfx(s):
    return "".join(ch if ch in PFX else "?" for ch in (s or ""))


STYLE = {"": "", "''": "2", "'''": "3", ":": ":", ";": ";"}


def name_id(tok):
    ty = tok.type
    aid = getattr(tok, "aid", 0)
    if ty == T.t_text:
        text = tok.text or ""
        if tok.blocknode:
            return "B", aid
        if text.startswith("="):
            return "eq%d" % len(text), aid
        if text.startswith("'"):
            return "ap%d" % len(text), aid
        if text == "+":
            return "plus", aid
        if text == " ":
            return "_", aid
        return "o", aid
    if ty == T.t_section:
        return "s%d" % tok.text.count("="), aid
    if ty == T.t_section_end:
        return "e%d" % tok.text.count("="), aid
    if ty == T.t_newline:
        return "n", aid
    if ty == T.t_break:
        return "b", aid
    if ty == T.t_item:
        return "i" + pfx(tok.text), aid
    if ty == T.t_colon:
        return "c" + pfx(tok.text), aid
    if ty == T.t_singlequote:
        return "q%d" % len(tok.text), aid
    if ty == T.t_urllink:
        return "u", aid
    if ty == T.t_special:
        if tok.text == "]":
            return "]", aid
        if tok.text == ":":
            return ":", aid
        if tok.text == "|":
            return "|", aid
        return "special?%r" % tok.text, aid
    if ty == T.t_2box_close:
        return "2", aid
    if ty == T.t_html_tag_end:
        return "/" + str(tok.rawtagname), aid
    if ty == T.t_pre:
        return "pre", aid
    if ty == T.t_column:
        return COLUMN_NAME.get(tok.text.strip(), "column?%r" % tok.text), aid
    if ty == T.t_html_tag:
        return {"table": "tb"}.get(tok.rawtagname, str(tok.rawtagname)), aid
    if ty == T.t_row:
        return "r", aid
    if ty == T.t_begin_table:
        return "{", aid
    if ty == T.t_end_table:
        return "}", aid
    if ty == T.t_tablecaption:
        return "+", aid
    if ty == T.t_2box_open:
        return "[[", aid
    if ty == T.t_complex_table_cell:
        return "cell%s" % tok.tagname, aid
    if ty == T.t_complex_table_row:
        return "row", aid
    if ty == T.t_complex_table:
        return "table", aid
    if ty == T.t_complex_caption:
        return "cap", aid
    if ty == T.t_complex_preformatted:
        return "pref", aid
    if ty == T.t_complex_node:
        return "node%d" % bool(tok.blocknode), aid
    if ty == T.t_complex_section:
        return "sect%d" % tok.level, aid
    if ty == T.t_complex_tag:
        return "%s%d" % (tok.tagname, bool(tok.blocknode)), aid
    if ty == T.t_complex_named_url:
        return "nurl", int(tok.caption[len("http://x"):])
    if ty == T.t_complex_style:
        return "st" + STYLE.get(tok.caption, "?%r" % (tok.caption,)), aid
    if ty == T.t_complex_line:
        return "line" + pfx(tok.lineprefix) + ("p" if tok.tagname == "p" else ""), aid
    return "unknown?%r" % (ty,), aid


def sexp_list(toks):
    """iterative (the results can be long and, for broken results, deep)"""
    out = []
    first = True
    work = [iter(toks)]
    while work:
        it = work[-1]
        tok = next(it, None)
        if tok is None:
            work.pop()
            if work:
                out.append(")")
            continue
        if len(work) == 1:
            if not first:
                out.append(" ")
            first = False
        else:
            out.append(" ")
        name, ident = name_id(tok)
        out.append("(%s %d" % (name, ident))
        work.append(iter(tok.children or []))
    return "".join(out)


def run_case(c, r):
    k = c["k"]
    toks = CountingList(build(code, i + 1) for i, code in enumerate(c["toks"]))
    toks.budget = 8 * len(c["toks"]) + 64
    extra = 1
    if k == "S":
        core.ParseSections(toks, None)
        extra = 2
    elif k == "L":
        core.ParseLines(toks, None)
    elif k == "U":
        core.ParseUrls(toks, None)
    elif k == "P":
        p = core.ParseParagraphs.__new__(core.ParseParagraphs)
        p.tokens = toks
        p.run()
    elif k == "C":
        parse_table.TableCellParser(toks, None)
    elif k == "R":
        parse_table.TableRowParser(toks, None)
    elif k == "T":
        # `while stack: make_table()` after the main loop does not evaluate len(tokens): its iterations are the calls of
        # find_caption (one per make_table) made after the last loop test
        seen = []
        orig_fc = parse_table.TableParser.find_caption

        def find_caption(self, table):
            seen.append(toks.calls)
            return orig_fc(self, table)

        parse_table.TableParser.find_caption = find_caption
        try:
            parse_table.TableParser(toks, None)
        finally:
            parse_table.TableParser.find_caption = orig_fc
        extra = 1 - sum(1 for c in seen if c == toks.calls)
    elif k == "F":
        # ParsePreformatted.__init__ walks the tree (get_token_walker) and calls run() on every child list: run() alone
        p = core.ParsePreformatted.__new__(core.ParsePreformatted)
        p.tokens = toks
        p.run()
    elif k == "Q":
        table = []
        orig = core.styleanalyzer.compute_path

        def wrapped(counts):
            states = orig(counts)
            table.append((list(counts), [(s.apocount, int(s.is_bold), int(s.is_italic)) for s in states]))
            return states

        core.styleanalyzer.compute_path = wrapped
        try:
            core.ParseSingleQuote(toks, None)
        finally:
            core.styleanalyzer.compute_path = orig
            r["cp"] = ";".join("%s=%s" % (",".join(str(x) for x in cs), ",".join("%d.%d.%d" % s for s in sts))
                               for cs, sts in table)
    else:
        raise ValueError("bad pass %r" % k)
    r["iters"] = toks.calls - extra
    r["out"] = sexp_list(toks)
    return r


WALL_LIMIT = 5.0        # seconds per case; the nested TableCellParser / TableRowParser runs work on plain lists
MAX_WALL_HITS = 3       # (no loop-test budget), so a loop that stops advancing there is cut off by the clock


def _alarm(signum, frame):
    raise LoopBudgetExceeded("wall clock: more than %.0f s for one token list" % WALL_LIMIT)


def main():
    out = sys.stdout
    signal.signal(signal.SIGALRM, _alarm)
    wall_hits = 0
    for line in sys.stdin:
        line = line.strip()
        if not line:
            continue
        c = json.loads(line)
        r = {"id": c["id"]}
        try:
            if wall_hits >= MAX_WALL_HITS:
                raise LoopBudgetExceeded("skipped: %d earlier token lists of this batch hit the wall clock limit" % wall_hits)
            signal.setitimer(signal.ITIMER_REAL, WALL_LIMIT)
            try:
                run_case(c, r)
            finally:
                signal.setitimer(signal.ITIMER_REAL, 0)
        except Exception as e:  # noqa: BLE001
            if isinstance(e, LoopBudgetExceeded) and str(e).startswith("wall clock"):
                wall_hits += 1
            r["exc"] = "%s: %s" % (type(e).__name__, e)
            r.pop("out", None)
            r.pop("iters", None)
        out.write(json.dumps(r) + "\n")


if __name__ == "__main__":
    main()
