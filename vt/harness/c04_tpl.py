"""Worker on the real code for C04 (template part).  stdin: JSON lines
{"id", "page": text, "db": {name: text}, "limit": int?, "cpu_limit": seconds?}; stdout: one JSON line per case
{"id", "page_node": dump, "tpl_nodes": {name: dump}, "out": text | null, "exc": "Type: msg" | null}
or {"id", "crash": "signal N"} when the interpreter died on that case.
Cases are processed in forked children so that a crash (SIGSEGV in the Cython modules) only loses one case."""
import json
import logging
import os
import signal
import sys

logging.disable(logging.CRITICAL)
import mwlib.parser.expander  # noqa: E402,F401  (must precede templ.evaluate)
from mwlib.parser.templ import nodes, parser  # noqa: E402
from mwlib.parser.templ.evaluate import Expander  # noqa: E402
from mwlib.parser.templ.marks import eqmark  # noqa: E402
from mwlib.parser.templ.misc import DictDB  # noqa: E402
from mwlib.parser.templ.node import Node  # noqa: E402

try:
    import qs.log  # noqa: F401
    qs.log.root_logger.disabled = True
except Exception:
    pass


class Unsupported(Exception):
    pass


class CpuTimeout(BaseException):
    """per-case CPU budget exhausted (BaseException: no handler of the library may swallow it)"""


def _on_vtalrm(signum, frame):
    raise CpuTimeout()


CASE_CPU_LIMIT = 20.0      # seconds of CPU per case unless the case says otherwise ("cpu_limit")


def cps(s):
    return " ".join([str(len(s))] + [str(ord(c)) for c in s])


def dump(n):
    if n is eqmark:
        return "E"
    if isinstance(n, str):
        return "S " + cps(n)
    t = type(n)
    if t in (tuple, list) or t is Node:
        return " ".join(["Q", str(len(n))] + [dump(x) for x in n])
    if t is nodes.Variable:
        return " ".join(["V", str(len(n))] + [dump(x) for x in n])
    if t is nodes.Template:
        return " ".join(["T", dump(n[0]), str(len(n[1]))] + [dump(x) for x in n[1]])
    if t is nodes.IfNode:
        return " ".join(["I", str(len(n))] + [dump(x) for x in n])
    if t is nodes.IfEqNode:
        return " ".join(["J", str(len(n))] + [dump(x) for x in n])
    if t is nodes.SwitchNode:
        return " ".join(["W", dump(n[0]), str(len(n[1]))] + [dump(x) for x in n[1]])
    raise Unsupported(t.__name__)


def arg_flags(n, flags):
    """duplicate / computed argument names of some call: ArgumentList's incremental scan is order dependent there"""
    if isinstance(n, str):
        return
    if type(n) is nodes.Template:
        names = []
        pos = 0
        for a in n[1]:
            key = None
            if not isinstance(a, str):
                try:
                    idx = a.index(eqmark)
                except ValueError:
                    idx = None
                if idx is not None:
                    key = a[:idx]
            if key is None:
                pos += 1
                names.append(str(pos))
            elif all(isinstance(x, str) for x in key):
                names.append("".join(key).strip())
            else:
                flags.add("dyn")
        if len(set(names)) != len(names):
            flags.add("dup")
    for x in n:
        arg_flags(x, flags)


def safe_dump(n):
    try:
        return dump(n)
    except Unsupported as e:
        return "X " + str(e)


def run_case(case):
    res = {"id": case["id"]}
    db = DictDB(dict(case.get("db") or {}))
    kw = {}
    if case.get("limit") is not None:
        kw["recursion_limit"] = case["limit"]
    e = Expander(case["page"], pagename=case.get("pagename", "thispage"), wikidb=db, **kw)
    res["page_node"] = safe_dump(e.parsed)
    res["tpl_nodes"] = {}
    flags = set()
    arg_flags(e.parsed, flags)
    for name, raw in (case.get("db") or {}).items():
        p = parser.parse(raw, replace_tags=e.replace_tags)
        res["tpl_nodes"][name] = safe_dump(p)
        arg_flags(p, flags)
    res["flags"] = sorted(flags)
    sys.stdout.write("")  # keep buffers in a known state before the risky call
    lim = float(case.get("cpu_limit") or CASE_CPU_LIMIT)
    try:
        signal.setitimer(signal.ITIMER_VIRTUAL, lim)
        try:
            out = e.expandTemplates()
        finally:
            signal.setitimer(signal.ITIMER_VIRTUAL, 0)
        if not isinstance(out, str):
            res["out"], res["exc"] = None, "not a str: %r" % type(out)
        else:
            res["out"], res["exc"] = out, None
    except CpuTimeout:
        res["out"], res["exc"] = None, "Timeout: no result after %.0fs CPU" % lim
    except BaseException as err:  # noqa: BLE001
        res["out"], res["exc"] = None, ("%s: %s" % (type(err).__name__, err))[:300]
    return res


def child(cases, wfd):
    try:  # a runaway expansion must fail in this child, not take the machine down
        import resource
        resource.setrlimit(resource.RLIMIT_AS, (4 << 30, 4 << 30))
        resource.setrlimit(resource.RLIMIT_CPU, (600, 600))
    except Exception:
        pass
    out = os.fdopen(wfd, "w")
    for c in cases:
        out.write(json.dumps({"start": c["id"]}) + "\n")
        out.flush()
        try:
            r = run_case(c)
        except BaseException as err:  # noqa: BLE001  harness-level problem
            r = {"id": c["id"], "harness_error": "%s: %s" % (type(err).__name__, err)}
        out.write(json.dumps(r) + "\n")
        out.flush()
    out.close()
    os._exit(0)


def main():
    cases = [json.loads(l) for l in sys.stdin if l.strip()]
    i = 0
    # default: one pristine child per case (undefined behaviour in one case must not leak into the next)
    chunk = int(sys.argv[1]) if len(sys.argv) > 1 else 1
    while i < len(cases):
        part = cases[i:i + chunk]
        rfd, wfd = os.pipe()
        sys.stdout.flush()
        pid = os.fork()
        if pid == 0:
            os.close(rfd)
            child(part, wfd)
        os.close(wfd)
        done = 0
        started = None
        with os.fdopen(rfd) as rf:
            for line in rf:
                obj = json.loads(line)
                if "start" in obj:
                    started = obj["start"]
                    continue
                sys.stdout.write(line)
                done += 1
                started = None
        _, status = os.waitpid(pid, 0)
        if done < len(part):
            sig = os.WTERMSIG(status) if os.WIFSIGNALED(status) else -os.WEXITSTATUS(status)
            sys.stdout.write(json.dumps({"id": part[done]["id"], "crash": "signal %s" % sig}) + "\n")
            done += 1
        sys.stdout.flush()
        i += done


if __name__ == "__main__":
    signal.signal(signal.SIGPIPE, signal.SIG_DFL)
    signal.signal(signal.SIGVTALRM, _on_vtalrm)
    main()
