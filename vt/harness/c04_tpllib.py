"""C04, template part: program generator (incl. '=' in text leaves), serialiser, model driver, ties (a) parse / (b) Expander vs eval /
(b') Expander vs flatten model, and the monitor (reference semantics = the extracted Coq `eval`).
Runs in the checker process: must not import mwlib."""
import concurrent.futures
import hashlib
import json
import os
import subprocess

from vt import core

WORDS = ["a", "b", "foo", "bar", "yes", "no", "x", "t", "Ab", "zz9"]
NUMS = ["0", "1", "2", "3", "1.0", "01", "10", "1.5", "1.50", "2.50", "-1", "+1", "007", ".5", "0.5", "1.", "-0", "3.14", "42",
        # exponent notation, with and without a fraction / sign / upper-case E (int() rejects them, float() and PHP's is_numeric
        # accept them): numerically equal to other entries of this list
        "1e0", "1E0", "1e1", "1E1", "1.0e1", "5e-1", "5E-1", "15e-1", "1.5e0", "2e0", "3E0", "0e0", "1e+1", ".5e0", "-1e0",
        "42e0", "4.2e1", "420e-1", "1000", "1e3", "1E3", "1.0e3", "25", "2.5E1", "2.5e1", "250e-1"]
# every way the same number can be written such that both MediaWiki (PHP is_numeric) and int()/float() take it for a number:
# value -> spellings (num_family: all pairs inside a class compare EQUAL by value, pairs across neighbouring classes differ)
NUM_CLASSES = [
    ["7", "+7", "07", "007", "+07", "7.0", "7.", "7.00", "7e0", "7E0", "7.0e0", "70e-1", "0.7e1", ".7e1", "0.7E+1", "+7e0"],
    ["1000", "1e3", "1E3", "1e+3", "1.0e3", "1.e3", "10e2", "0.1e4", "+1e3", "1000.0", "01000", "10000e-1"],
    ["0.5", ".5", "0.50", "5e-1", "5E-1", "+.5", "50e-2", "0.05e1", "00.5"],
    ["-40", "-4e1", "-4E1", "-40.0", "-4.0e1", "-400e-1", "-040"],
    ["0", "-0", "0.0", "0e0", "0e5", "-0e0", ".0", "0.", "00", "+0", "0E-3"],
    ["2", "2e0", "2.0", "+2", "02", "20e-1", "0.2e1"],
    ["25", "2.5e1", "2.5E1", "25.0", "250e-1", "025", ".25e2"],
    ["1e4", "10000", "1E4", "10e3"],
]
# DIFFERENT values that a sloppy comparison would equate (truncation to int, ignoring the exponent or its sign, ignoring the
# sign, comparing mantissas only, rounding): must compare as different
NUM_NEAR = [("1.5", "1"), ("2.5", "2"), ("0.5", "0"), (".5", "0"), ("2.5e1", "2e1"), ("25e-1", "2"), ("1e3", "1e2"), ("1e3", "1"),
            ("10", "1e0"), ("1e1", "1"), ("7", "7.5"), ("-0.5", "0"), ("-1", "1"), ("+1", "-1"), ("1e-1", "1"), ("1e-1", "0"),
            ("5e-1", "5"), ("5e-1", "5e1"), ("1e-3", "1e3"), ("0.1", "0.11"), ("1.0e3", "1.0"), ("1000", "1000.5"), ("1E3", "1E-3"),
            ("3", "3e1"), ("30", "3e0"), ("0.3", "3e1"), ("99", "1e2"), ("0e0", "1e0"), ("-4e1", "4e1"), ("-40", "-4")]
# spellings that are NOT numbers for either side: compared as text (equal only when identical after trimming)
NOT_NUMS = ["1e", "e3", "1e3x", "1 e3", "1e 3", "7,0", "x7", "1e-", "1e+", ".", "-", "+", "1.2.3", "1ee3", ".e3"]
PADS = ["", "", "", " ", "\n", "  ", " \n", "\n "]
PNAMES = ["1", "2", "3", "x", "y", "k"]
TNAMES = ["t1", "t2", "t3", "t4"]


# ------------------------------------------------------------------ generator
# ast (python): ("t", s) | ("p", name, body|None) | ("c", name, [(None|key, body)]) | ("i", c, t, e|None)
#             | ("q", a, b, t, e|None) | ("w", scrut, [(keys, lastkey, value)], None | (True|False, body))

# '=' inside TEXT.  In MediaWiki an equals sign is syntax only at the top level of an argument of a TEMPLATE CALL (first '=':
# name=value) and of a #switch case (first '=': key=value); everywhere else - branches and conditions of #if/#ifeq, parameter
# defaults, page and template text, the value part of a named argument or of a #switch case - it is ordinary result text, kept
# with the blanks around it.  EQ_P is the probability that a text leaf generated in such a context contains '='.
EQ_P = 0.15
EQ_SEPS = [" = ", "=", " =", "= ", "  =  ", " != ", "\n=\n", " = = ", "=="]


def gen_text(rng, eq=False):
    core_ = rng.choice(NUMS) if rng.random() < 0.45 else rng.choice(WORDS)
    if rng.random() < 0.15:
        core_ = core_ + " " + rng.choice(WORDS)
    if eq and rng.random() < EQ_P:
        r = rng.random()
        sep = rng.choice(EQ_SEPS)
        other = rng.choice(NUMS) if rng.random() < 0.4 else rng.choice(WORDS)
        if r < 0.6:
            core_ = core_ + sep + other                       # "a = b"
        elif r < 0.75:
            core_ = core_ + sep + other + rng.choice(EQ_SEPS) + rng.choice(WORDS)    # "a = b = c"
        elif r < 0.85:
            core_ = sep.lstrip() + other if sep.strip() else "=" + other            # "= b": the text starts with '='
        elif r < 0.95:
            core_ = core_ + sep.rstrip()                      # "a =": ends with '='
        else:
            core_ = "="
    return rng.choice(PADS) + core_ + rng.choice(PADS)


class Budget:
    """node budget of one program: keeps generated programs small (pages of ~20..200 characters)"""
    left = 0


def gen_body(rng, depth, callable_, maxlen=3, allow_empty=True, eq=False):
    """eq: may the TOP-LEVEL text leaves of this body contain '=' (is the body a text context)?  Nested constructs decide for
    their own sub-bodies."""
    n = rng.choice([0, 1, 1, 1, 2, 2, 3]) if allow_empty else rng.choice([1, 1, 2, 3])
    n = min(n, maxlen)
    res = []
    for _ in range(n):
        last_text = bool(res) and res[-1][0] == "t"
        x = gen_ast(rng, depth, callable_, no_text=last_text, eq=eq)
        if x is not None:
            res.append(x)
    return res


def gen_ast(rng, depth, callable_, no_text=False, eq=False):
    Budget.left -= 1
    kinds = ["t"] * (0 if no_text else 5)
    if depth > 0 and Budget.left > 0:
        kinds += ["p"] * 4 + ["i"] * 2 + ["q"] * 2 + ["w"] * 3 + (["c"] * 4 if callable_ else [])
    else:
        kinds += ["p0"] * 2
    k = rng.choice(kinds)
    d = depth - 1
    if k == "t":
        return ("t", gen_text(rng, eq))
    if k == "p0":
        return ("p", rng.choice(PNAMES), None)
    if k == "p":
        dflt = None
        if rng.random() < 0.5:
            dflt = gen_body(rng, d, callable_, maxlen=2, eq=True)        # a default is text
        return ("p", rng.choice(PNAMES), dflt)
    if k == "c":
        name = rng.choice(callable_)
        args = []
        used = set()
        pos = 0
        for _ in range(rng.choice([0, 1, 1, 2, 2, 3])):
            if rng.random() < 0.55:
                key = None
                eff = str(pos + 1)
            else:
                key = rng.choice(PNAMES)
                eff = key
            if eff in used:
                continue
            if key is None:
                pos += 1
            used.add(eff)
            if key is not None and rng.random() < 0.3:       # {{t| k = v }}: name and value of a named argument are trimmed
                key = rng.choice(PADS + [" "]) + key + rng.choice(PADS + [" "])
            # positional: a top-level '=' would make it a named argument (that shape IS the named one above); named: the first
            # '=' has been used, further ones are text of the value
            args.append((key, gen_body(rng, d, callable_, maxlen=2, eq=key is not None)))
        # a later positional must not collide with an earlier explicit number
        chk = set()
        p = 0
        ok = True
        for key, _b in args:
            if key is None:
                p += 1
                e = str(p)
            else:
                e = key.strip()
            if e in chk:
                ok = False
            chk.add(e)
        if not ok:
            args = [(kk, b) for kk, b in args if kk is None]
        return ("c", name, args)
    if k == "i":        # condition and branches of #if / #ifeq are text: '=' has no meaning there
        return ("i", gen_body(rng, d, callable_, maxlen=2, eq=True), gen_body(rng, d, callable_, maxlen=2, eq=True),
                gen_body(rng, d, callable_, maxlen=2, eq=True) if rng.random() < 0.7 else None)
    if k == "q" and rng.random() < SEQ_P:
        a = gen_seq(rng, d, callable_)
        b = list(a) if rng.random() < 0.5 else (glued(a) or [("t", "x")])
        if rng.random() < 0.5:
            a, b = b, a
        return ("q", a, b, gen_body(rng, d, callable_, maxlen=2, eq=True),
                gen_body(rng, d, callable_, maxlen=2, eq=True) if rng.random() < 0.7 else None)
    if k == "q":
        return ("q", gen_body(rng, d, callable_, maxlen=2, eq=True), gen_body(rng, d, callable_, maxlen=2, eq=True),
                gen_body(rng, d, callable_, maxlen=2, eq=True),
                gen_body(rng, d, callable_, maxlen=2, eq=True) if rng.random() < 0.7 else None)
    if k == "w":
        cases = []
        for _ in range(rng.choice([1, 2, 2, 3, 4])):
            keys = [gen_key(rng, d, callable_) for _ in range(rng.choice([0, 0, 0, 1, 2]))]
            # key=value: the first '=' of the case separates them, later ones are text of the value
            cases.append((keys, gen_key(rng, d, callable_), gen_body(rng, d, callable_, maxlen=2, eq=True)))
        r = rng.random()
        dflt = None
        if r < 0.35:
            dflt = (True, gen_body(rng, d, callable_, maxlen=2, eq=True))
        elif r < 0.7:
            dflt = (False, gen_body(rng, d, callable_, maxlen=2, allow_empty=False))
        if rng.random() < SEQ_P:
            # a sequence as the comparison value; one case key is the same sequence (must be hit: equal texts), and - half of the
            # time, placed BEFORE it - the sequence without its white-space separators (a different text unless they were empty)
            sc = gen_seq(rng, d, callable_)
            same = ([], list(sc), gen_body(rng, d, callable_, maxlen=2, eq=True))
            g = glued(sc)
            extra = [([], g, [("t", "glued")])] if (g and g != sc and rng.random() < 0.5) else []
            at = rng.randint(0, len(cases))
            cases = cases[:at] + extra + [same] + cases[at:]
        else:
            sc = gen_key(rng, d, callable_) if rng.random() < 0.8 else gen_body(rng, d, callable_, maxlen=2, eq=True)
        return ("w", sc, cases, dflt)
    raise AssertionError(k)


# SEQUENCES.  The comparison value of #switch, its case keys and the operands of #ifeq are TEXT: a sequence of parameters,
# calls and conditionals with text between them evaluates to the concatenation, trimmed at both ENDS only - white space BETWEEN
# two nodes ({{{1}}} {{{2}}}, {{a}}<newline>{{b}}) is part of the value.  SEQ_P = probability that such a position holds a
# generated sequence of 2..3 non-text nodes separated by white-space-only text / non-blank text / nothing.
SEQ_P = 0.3
SEQ_SEPS = [" ", " ", "\n", "  ", " \n", " - ", "-", ""]


def gen_seq(rng, depth, callable_):
    n = rng.choice([2, 2, 2, 3])
    res = []
    lead = rng.choice(PADS)
    if lead:
        res.append(("t", lead))
    for i in range(n):
        if i:
            sep = rng.choice(SEQ_SEPS)
            if sep:
                res.append(("t", sep))
        r = rng.random()
        if r < 0.5 or depth <= 0:
            Budget.left -= 1
            res.append(("p", rng.choice(PNAMES[:3]), None))
        elif r < 0.75 and callable_:
            Budget.left -= 1
            res.append(("c", rng.choice(callable_), []))
        else:
            x = gen_ast(rng, depth - 1, callable_, no_text=True)
            res.append(x if x is not None else ("p", "1", None))
    trail = rng.choice(PADS)
    if trail:
        res.append(("t", trail))
    return res


def glued(seq):
    """the sequence without its white-space-only text leaves"""
    return [x for x in seq if not (x[0] == "t" and not x[1].strip())]


def gen_key(rng, depth, callable_):
    r = rng.random()
    if r < 0.7 or depth <= 0:
        Budget.left -= 1
        return [("t", gen_text(rng))]
    return gen_body(rng, depth, callable_, maxlen=2, allow_empty=False) or [("t", gen_text(rng))]


def gen_program(rng, depth):
    nt = rng.choice([1, 2, 2, 3, 4])
    uni = []
    for i in range(nt):
        callable_ = [n for n, _b in uni]
        Budget.left = rng.choice([4, 8, 12, 20])
        body = gen_body(rng, rng.randint(1, depth), callable_, maxlen=3, eq=True)
        uni.append((TNAMES[i], body))
    Budget.left = rng.choice([6, 10, 16, 24, 40])
    page = gen_body(rng, depth, [n for n, _b in uni], maxlen=3, allow_empty=False, eq=True)
    if not any(x[0] == "c" for x in page) and rng.random() < 0.8:
        args = []
        for j in range(rng.choice([0, 1, 2, 3])):
            args.append((None, gen_body(rng, 1, [n for n, _b in uni], maxlen=2)))
        if rng.random() < 0.5:
            args.append((rng.choice(["x", "y", "k"]), gen_body(rng, 1, [], maxlen=2, eq=True)))
        if page and page[-1][0] == "t" and False:
            pass
        page.append(("c", uni[-1][0], args))
    return uni, page


# ------------------------------------------------------------------ serialiser (canonical wikitext)

def ser_body(b):
    return "".join(ser(x) for x in b)


def ser(x):
    k = x[0]
    if k == "t":
        return x[1]
    if k == "p":
        return "{{{" + x[1] + ("" if x[2] is None else "|" + ser_body(x[2])) + "}}}"
    if k == "c":
        return "{{" + x[1] + "".join("|" + ("" if key is None else key + "=") + ser_body(b) for key, b in x[2]) + "}}"
    if k == "i":
        return "{{#if:" + ser_body(x[1]) + "|" + ser_body(x[2]) + ("" if x[3] is None else "|" + ser_body(x[3])) + "}}"
    if k == "q":
        return ("{{#ifeq:" + ser_body(x[1]) + "|" + ser_body(x[2]) + "|" + ser_body(x[3]) +
                ("" if x[4] is None else "|" + ser_body(x[4])) + "}}")
    if k == "w":
        s = "{{#switch:" + ser_body(x[1])
        for keys, lastk, v in x[2]:
            for kk in keys:
                s += "|" + ser_body(kk)
            s += "|" + ser_body(lastk) + "=" + ser_body(v)
        if x[3] is not None:
            s += ("|#default=" if x[3][0] else "|") + ser_body(x[3][1])
        return s + "}}"
    raise AssertionError(k)


# ------------------------------------------------------------------ encoder for the OCaml driver

def enc_str(s):
    return " ".join([str(len(s))] + [str(ord(c)) for c in s])


def enc_body(b):
    return " ".join([str(len(b))] + [enc(x) for x in b])


def enc(x):
    k = x[0]
    if k == "t":
        return "t " + enc_str(x[1])
    if k == "p":
        return "p " + enc_str(x[1]) + (" 0" if x[2] is None else " 1 " + enc_body(x[2]))
    if k == "c":
        return " ".join(["c", enc_str(x[1]), str(len(x[2]))] +
                        [("0 " + enc_body(b)) if key is None else ("1 " + enc_str(key) + " " + enc_body(b)) for key, b in x[2]])
    if k == "i":
        return "i " + enc_body(x[1]) + " " + enc_body(x[2]) + (" 0" if x[3] is None else " 1 " + enc_body(x[3]))
    if k == "q":
        return ("q " + enc_body(x[1]) + " " + enc_body(x[2]) + " " + enc_body(x[3]) +
                (" 0" if x[4] is None else " 1 " + enc_body(x[4])))
    if k == "w":
        parts = ["w", enc_body(x[1]), str(len(x[2]))]
        for keys, lastk, v in x[2]:
            parts += [str(len(keys))] + [enc_body(kk) for kk in keys] + [enc_body(lastk), enc_body(v)]
        if x[3] is None:
            parts.append("0")
        else:
            parts += ["1" if x[3][0] else "2", enc_body(x[3][1])]
        return " ".join(parts)
    raise AssertionError(k)


def dec_str_field(toks):
    """'k c1..ck' token list -> str"""
    k = int(toks[0])
    return "".join(chr(int(t)) for t in toks[1:1 + k])


def depth_of(b):
    def d(x):
        k = x[0]
        if k == "t":
            return 0
        subs = []
        if k == "p":
            if x[2] is None:
                return 0
            subs = [x[2]]
        elif k == "c":
            subs = [bb for _k, bb in x[2]]
        elif k == "i":
            subs = [x[1], x[2], x[3] or []]
        elif k == "q":
            subs = [x[1], x[2], x[3], x[4] or []]
        elif k == "w":
            subs = [x[1]] + [kk for ks, lk, v in x[2] for kk in ks + [lk, v]] + ([x[3][1]] if x[3] else [])
        return 1 + max([depth_of(s) for s in subs] or [0])
    return max([d(x) for x in b] or [0])


def kinds_of(b, acc):
    for x in b:
        acc[x[0]] = acc.get(x[0], 0) + 1
        k = x[0]
        if k == "p" and x[2]:
            kinds_of(x[2], acc)
        elif k == "c":
            for _k, bb in x[2]:
                kinds_of(bb, acc)
        elif k == "i":
            for s in (x[1], x[2], x[3] or []):
                kinds_of(s, acc)
        elif k == "q":
            for s in (x[1], x[2], x[3], x[4] or []):
                kinds_of(s, acc)
        elif k == "w":
            kinds_of(x[1], acc)
            for ks, lk, v in x[2]:
                for s in ks + [lk, v]:
                    kinds_of(s, acc)
            if x[3]:
                acc["w-default-named" if x[3][0] else "w-default-bare"] = acc.get("w-default-named" if x[3][0] else "w-default-bare", 0) + 1
                kinds_of(x[3][1], acc)
    return acc


# ------------------------------------------------------------------ running

DEFAULT_ALIASES_DE = ["#standard", "#default"]   # DictDB always uses the "de" siteinfo; checked by the worker? (tie)


def build():
    return core.ocaml_build("c04", "C04/Extract.v", "driver.ml", dirs=["C03", "C04"])


def model_lines(cases):
    lines = ["D %d %s" % (len(DEFAULT_ALIASES_DE), " ".join(enc_str(a) for a in DEFAULT_ALIASES_DE))]
    for c in cases:
        lines.append("C")
        for name, b in c["uni"]:
            lines.append("U %s %s" % (enc_str(name), enc_body(b)))
            lines.append("K " + enc_body(b))
        lines.append("P 80 100 " + enc_body(c["page"]))
    return "\n".join(lines) + "\n"


def parse_model_output(out, cases):
    it = iter(out.splitlines())
    res = []
    for c in cases:
        tn = {}
        for name, _b in c["uni"]:
            ln = next(it)
            if not ln.startswith("CMP "):
                raise RuntimeError("model driver: " + ln)
            tn[name] = ln[4:]
        ln = next(it)
        if not ln.startswith("RES "):
            raise RuntimeError("model driver: " + ln)
        node, ev, im = ln[4:].split(" | ")
        evs = dec_str_field(ev.split()[2:]) if ev.startswith("EVAL OK") else None
        ims = dec_str_field(im.split()[2:]) if im.startswith("IMPL OK") else im
        res.append({"page_node": node, "tpl_nodes": tn, "eval": evs, "impl": ims})
    return res


def run_real(src, cases, nproc):
    def shard(part):
        inp = "".join(json.dumps({"id": c["id"], "page": c["page_text"], "db": dict(c["db_text"])}) + "\n" for c in part)
        rc, out = core.run_impl("vt.harness.c04_tpl", [], src=src, input=inp, timeout=3000)
        got = {}
        for ln in out.splitlines():
            if ln.startswith("{"):
                try:
                    o = json.loads(ln)
                except ValueError:
                    continue
                got[o["id"]] = o
        if len(got) != len(part):
            raise RuntimeError("c04_tpl worker rc=%s answered %d/%d: %s" % (rc, len(got), len(part), out[-600:]))
        return got
    k = max(1, min(nproc, (len(cases) + 199) // 200))
    parts = [cases[i::k] for i in range(k)]
    res = {}
    with concurrent.futures.ThreadPoolExecutor(k) as ex:
        for got in ex.map(shard, parts):
            res.update(got)
    return res


def numeric_keys_tie(x):
    """does some #switch of the program contain two different key texts that are numerically equal?"""
    found = [False]

    def num(s):
        s = s.strip()
        try:
            return float(s)
        except ValueError:
            return None

    def walk(b):
        for n in b:
            k = n[0]
            if k == "w":
                ks = []
                for keys, lk, v in n[2]:
                    for kk in keys + [lk]:
                        if len(kk) == 1 and kk[0][0] == "t":
                            ks.append(kk[0][1].strip())
                for i in range(len(ks)):
                    for j in range(i + 1, len(ks)):
                        if ks[i] != ks[j] and num(ks[i]) is not None and num(ks[i]) == num(ks[j]):
                            found[0] = True
            for s in subs(n):
                walk(s)
    walk(x)
    return found[0]


def subs(x):
    k = x[0]
    if k == "p":
        return [x[2] or []]
    if k == "c":
        return [bb for _k, bb in x[2]]
    if k == "i":
        return [x[1], x[2], x[3] or []]
    if k == "q":
        return [x[1], x[2], x[3], x[4] or []]
    if k == "w":
        return [x[1]] + [kk for ks, lk, v in x[2] for kk in ks + [lk, v]] + ([x[3][1]] if x[3] else [])
    return []


def has_bare_default(b):
    for n in b:
        if n[0] == "w" and n[3] is not None and not n[3][0]:
            return True
        if any(has_bare_default(s) for s in subs(n)):
            return True
    return False


DIRECTED = [
    # (universe, page) as wikitext-free ASTs: regression seeds for known deviations and the property's clauses
    ([("t1", [("p", "1", None), ("t", "|"[:0] + "-"), ("p", "x", None)])], [("c", "t1", [(None, [("t", " a ")]), ("x", [("t", " b ")])])]),
    ([("t1", [("p", "1", None)])], [("c", "t1", [])]),
    ([("t1", [("p", "1", [("t", "d")])])], [("c", "t1", []), ("c", "t1", [(None, [])])]),
    ([("t1", [("t", "x")])], [("w", [("t", "1")], [([], [("t", "1.0")], [("t", "b")]), ([], [("t", "1")], [("t", "a")])], None)]),
    ([("t1", [("t", "x")])], [("w", [("t", "1")], [([], [("t", "1.0")], [("p", "x", None), ("t", "b")]), ([], [("t", "1")], [("t", "c")])], None)]),
    ([("t1", [("t", "x")])], [("w", [("t", "q")], [([], [("t", "a")], [("t", "1")])], (False, [("t", "dflt")]))]),
    ([("t1", [("t", "x")])], [("w", [("t", "b")], [([[("t", "a")], [("t", "b")]], [("t", "c")], [("t", " 1 ")])], (True, [("t", "3")]))]),
    ([("t1", [("t", "x")])], [("q", [("t", "1.0")], [("t", "1")], [("t", " y ")], [("t", "n")]), ("q", [("t", "a")], [("t", "A")], [("t", "y")], [("t", " n ")])]),
    ([("t1", [("t", "x")])], [("i", [("t", " ")], [("t", "y")], [("t", " n ")]), ("i", [("t", "0")], [("t", " y\n")], None)]),
    ([("t1", [("t", "plain text only")])], [("t", "no template syntax here.\n second line ")]),
]


def eq_family():
    """'=' AS TEXT, deterministically: every separator spelling of EQ_SEPS (blanks on either/both/no side, doubled, '!=',
    on its own line) at every position where the template language defines an equals sign to be text - then/else branch and
    condition of #if, both operands and both branches of #ifeq, parameter default, value of a named argument (after its first
    '='), value of a #switch case and of #default, page text, template text - and, as the contrast, where it is syntax: the
    named argument {{t1| k = v }} whose name and value are trimmed.  Each program is tiny (one construct)."""
    T = lambda s: [("t", s)]      # noqa: E731
    out = []
    show = [("t1", [("t", "["), ("p", "1", None), ("t", "/"), ("p", "k", None), ("t", "]")])]
    for sep in EQ_SEPS:
        txt = "a" + sep + "b"
        padded = " " + txt + " "
        progs = [
            [("i", T("1"), T(padded), T("no"))],
            [("i", T(""), T("yes"), T(padded))],
            [("i", T(padded), T("y"), T("n"))],
            [("t", "x"), ("i", T("1"), T(padded), None), ("t", "y")],
            [("q", T("2"), T("2.0"), T(padded), T("no"))],
            [("q", T("2"), T("3"), T("yes"), T(padded))],
            [("q", T(padded), T("a=b"), T("same"), T("differ"))],
            [("q", T("a = b"), T(padded), T("same"), T("differ"))],
            [("p", "zz", T(padded))],
            [("c", "t1", [(None, T(" p ")), ("k", T(padded))])],
            [("c", "t1", [(None, T(" p ")), (" k ", T(padded))])],
            [("c", "t1", [(" 1 ", T(padded)), ("k", [("i", T("1"), T(padded), None)])])],
            [("c", "t1", [(None, [("i", T("1"), T(padded), None)]), ("k", [("p", "zz", T(padded))])])],
            [("w", T("b"), [([], T("a"), T("1")), ([], T(" b "), T(padded))], (True, T("3")))],
            [("w", T("q"), [([], T("a"), T("1"))], (True, T(padded)))],
            [("w", T(padded), [([], T("a"), T("1"))], (True, T("dflt")))],
            [("t", padded)],
        ]
        for pg in progs:
            out.append((show, pg))
        # the same through parameters: a template whose conditional builds 'x = y' texts from its arguments
        pair = [("t2", [("i", [("p", "1", [])], [("p", "1", None), ("t", sep), ("p", "2", T("none"))],
                        [("t", "unset" + sep), ("p", "2", T("none"))])])]
        for args in ([(None, T("a")), (None, T("b"))], [(None, []), (None, T("b"))], [(None, T("a"))]):
            out.append((pair, [("c", "t2", args)]))
        out.append((pair + [("t3", [("t", txt)])], [("c", "t3", []), ("t", " "), ("c", "t2", [(None, [("c", "t3", [])])])]))
    return out


def num_family():
    """NUMBERS BY VALUE, deterministically: for every pair (a, b) of spellings of the same value in NUM_CLASSES (plain, signed,
    zero-padded, with trailing .0 / bare point, exponent notation with and without fraction, sign of the exponent, upper-case
    E) and for pairs of different values (arbitrary and NEAR ones: 1.5 / 1, 1e3 / 1e2, 5e-1 / 5e1, -1 / 1) / of non-numbers, the comparison `a = b` is put where the template language compares:
    #ifeq directly (with blanks around the operands), #ifeq inside a template body with the operands arriving as positional
    arguments, as named arguments, through a parameter default and out of another template, and #switch (literal keys and a
    computed key).  Reference: both numeric -> equal iff equal VALUES; otherwise equal iff identical text."""
    T = lambda s: [("t", s)]      # noqa: E731
    P = lambda n, d=None: ("p", n, d)      # noqa: E731
    out = []
    pairs = []
    for ci, cls in enumerate(NUM_CLASSES):
        base = cls[0]
        for sp in cls[1:]:
            pairs.append((sp, base))
            pairs.append((base, sp))
        for i in range(1, len(cls) - 1):
            pairs.append((cls[i], cls[i + 1]))
        other = NUM_CLASSES[(ci + 1) % len(NUM_CLASSES)]
        for i, sp in enumerate(cls):
            pairs.append((sp, other[i % len(other)]))          # different values
    for a, b in NUM_NEAR:
        pairs.append((a, b))
        pairs.append((b, a))
    for i, bad in enumerate(NOT_NUMS):
        pairs.append((bad, bad))
        pairs.append((bad, NUM_CLASSES[i % len(NUM_CLASSES)][0]))
        pairs.append((NUM_CLASSES[i % len(NUM_CLASSES)][1], bad))
    cmp_pos = ("t1", [("q", [P("1")], [P("2")], T(" same "), T("different"))])
    cmp_named = ("t2", [("q", [P("left")], [P("right", T("1000"))], T("same"), T(" different "))])
    for j, (a, b) in enumerate(pairs):
        const = ("t3", T(a))
        uni = [cmp_pos, cmp_named, const]
        out.append((uni, [("q", T(" " + a + " "), T(" " + b), T("same"), T("different"))]))
        shape = j % 6
        if shape == 0:
            out.append((uni, [("c", "t1", [(None, T(a)), (None, T(b))])]))
        elif shape == 1:
            out.append((uni, [("c", "t2", [("right", T(" " + b + " ")), ("left", T(" " + a + " "))])]))
        elif shape == 2:
            out.append((uni, [("c", "t2", [("left", T(b))]), ("t", "/"), ("c", "t2", [("left", [("c", "t3", [])])])]))
        elif shape == 3:
            out.append((uni, [("w", T(a), [([], T(b), T("same"))], (True, T("different")))]))
        elif shape == 4:
            out.append((uni, [("w", T(a), [([T("zz")], [("c", "t3", [])], T("computed")), ([], T(b), T("same"))], (False, T("different")))]))
        else:
            out.append((uni, [("c", "t1", [(None, [("c", "t3", [])]), (None, T(b))]), ("t", " "),
                              ("q", [("c", "t3", [])], T(b), T("same"), None)]))
    return out


WS_SEPS = [" ", "\n", "  ", " \n", "\n\n"]


def ws_family():
    """INTERIOR WHITE SPACE, deterministically: a sequence of two or three nodes (parameters, template calls, a parameter and a
    call, conditionals) separated ONLY by white space (one blank, a newline, two blanks, blank+newline, an empty line), with and
    without white space at its ends, at every position whose value is compared or returned as text: comparison value of #switch
    (keys: the spaced text, the glued text, in both orders), a #switch key (fall-through and last), both operands of #ifeq, the
    condition of #if, the value of a case / #default / bare default, a positional and a named argument, a parameter default.
    Reference: the value is the concatenation, trimmed at the ends only."""
    T = lambda s: [("t", s)]      # noqa: E731
    P = lambda n, d=None: ("p", n, d)      # noqa: E731
    C = lambda n, a=(): ("c", n, list(a))      # noqa: E731
    out = []
    show = ("t1", [("t", "["), P("1"), ("t", "/"), P("k"), ("t", "]")])
    tx = ("t3", T("x"))
    ty = ("t4", T("y"))
    for sep in WS_SEPS:
        for lead, trail in (("", ""), (" ", " "), ("\n", "")):
            def seq(*nodes, sep=sep, lead=lead, trail=trail):
                res = [("t", lead)] if lead else []
                for i, nd in enumerate(nodes):
                    if i:
                        res.append(("t", sep))
                    res.append(nd)
                if trail:
                    res.append(("t", trail))
                return res
            sp, gl = "a" + sep + "b", "ab"
            for order in (0, 1):
                ks = [([], T(sp), T("spaced")), ([], T(gl), T("joined"))]
                if order:
                    ks.reverse()
                pair = ("t2", [("w", seq(P("1"), P("2")), ks, (True, T("other")))])
                for args in ([T("a"), T("b")], [T("ab"), []], [T("x"), T("y")], [T(" a "), T(" b ")]):
                    out.append(([show, pair], [C("t2", [(None, a) for a in args])]))
            calls = ("t2", [("w", seq(C("t3"), C("t4")), [([], T("xy"), T("glued")), ([], T("x" + sep + "y"), T("apart"))], None)])
            out.append(([show, tx, ty, calls], [C("t2")]))
            mixed = ("t2", [("w", seq(P("1"), C("t4"), P("2")), [([T("ayb")], T("a" + sep + "y" + sep + "b"), T("hit")),
                                                                  ([], T("ay" + sep + "b"), T("half"))], (False, T("none")))])
            for args in ([T("a"), T("b")], [T("ay"), T("b")], [T(""), T("")]):
                out.append(([show, tx, ty, mixed], [C("t2", [(None, a) for a in args])]))
            cond = ("t2", [("w", seq(("i", [P("1", [])], T("p"), T("q")), ("q", [P("1", [])], T("a"), T("r"), T("s"))),
                            [([], T("p" + sep + "r"), T("pr")), ([], T("pr"), T("glued")), ([], T("q" + sep + "s"), T("qs")),
                             ([], T("p" + sep + "s"), T("ps"))], (True, T("other")))])
            for args in ([T("a")], [T("b")], []):
                out.append(([show, cond], [C("t2", [(None, a) for a in args])]))
            # the sequence on the KEY side (fall-through key and last key)
            keyed = ("t2", [("w", T(" " + sp + " "), [([seq(P("1"), P("2"))], T("zz"), T("first")), ([], T(gl), T("glued"))], (True, T("none")))])
            keyed2 = ("t2", [("w", T(gl), [([], seq(P("1"), P("2")), T("seq")), ([], T(gl), T("glued"))], (True, T("none")))])
            for tpl in (keyed, keyed2):
                for args in ([T("a"), T("b")], [T("ab"), []]):
                    out.append(([show, tpl], [C("t2", [(None, a) for a in args])]))
            # #ifeq operands, #if condition
            eq1 = ("t2", [("q", seq(P("1"), P("2")), T(sp), T("same"), T("different")), ("t", "/"),
                          ("q", T(gl), seq(P("1"), P("2")), T("same"), T("different")), ("t", "/"),
                          ("q", seq(P("1"), P("2")), seq(P("1"), P("2")), T("same"), T("different")), ("t", "/"),
                          ("i", seq(P("1", []), P("2", [])), T("set"), T("unset"))])
            for args in ([T("a"), T("b")], [T("ab"), []], [[], []], [[], T("b")]):
                out.append(([show, eq1], [C("t2", [(None, a) for a in args])]))
            # values: the text comes out with its interior white space
            vals = ("t2", [("t", "<"), ("w", [P("3", T("k"))], [([], T("k"), seq(P("1"), P("2")))], (True, seq(P("2"), P("1")))), ("t", ">"),
                           ("w", T("q"), [([], T("k"), T("no"))], (False, seq(P("1"), P("2")))), ("t", "<"),
                           P("zz", seq(P("1"), P("2"))), ("t", ">"),
                           C("t1", [(None, seq(P("1"), P("2"))), ("k", seq(P("2"), P("1")))])])
            for args in ([T("a"), T("b")], [T("a"), T("b"), T("other")]):
                out.append(([show, vals], [C("t2", [(None, a) for a in args])]))
    return out


# OPEN DEFECT (fixes/C04-equal-split-single-node-argument.diff): evaluate.equal_split looks for the eqmark with
# node.index(eqmark) also when the argument is ONE node - IfNode / IfEqNode are tuple subclasses whose children are their own
# arguments - so a positional argument, #switch fall-through key or bare default that consists of exactly one #if/#ifeq whose
# selected-or-not branch is exactly "=" is split INSIDE the conditional:  {{t1|{{#if:1|=|x}}|k=v}} binds 1 = "x".
# Until the fix is in /repo the generator does not produce that shape (VERIF_C04_EQ_BRANCH_ARG=1 produces it, adds directed
# programs and reports it under the fingerprint below).
EQ_BRANCH_ARG = os.environ.get("VERIF_C04_EQ_BRANCH_ARG", "1") == "1"
EQ_BRANCH_FP = "equal-split-inside-single-conditional-argument"
_EQ = [("t", "=")]


def _cond_with_eq_branch(body):
    if len(body) != 1:
        return False
    n = body[0]
    if n[0] == "i":
        return list(n[2]) == _EQ or (n[3] is not None and list(n[3]) == _EQ)
    if n[0] == "q":
        return list(n[2]) == _EQ or list(n[3]) == _EQ or (n[4] is not None and list(n[4]) == _EQ)
    return False


def has_eq_branch_arg(b):
    for n in b:
        if n[0] == "c" and any(key is None and _cond_with_eq_branch([tuple(x) for x in bb]) for key, bb in n[2]):
            return True
        if n[0] == "w":
            if any(_cond_with_eq_branch([tuple(x) for x in kk]) for keys, _lk, _v in n[2] for kk in keys):
                return True
            if n[3] is not None and not n[3][0] and _cond_with_eq_branch([tuple(x) for x in n[3][1]]):
                return True
        if any(has_eq_branch_arg(s) for s in subs(n)):
            return True
    return False


def eq_branch_family():
    T = lambda s: [("t", s)]      # noqa: E731
    show = [("t1", [("t", "["), ("p", "1", None), ("t", "/"), ("p", "k", None), ("t", "]")])]
    return [(show, [("c", "t1", [(None, [("i", T("1"), T("="), None)])])]),
            (show, [("c", "t1", [(None, [("i", T("1"), T("="), T("x"))]), ("k", T("v"))])]),
            (show, [("c", "t1", [(None, [("q", T("1"), T("1"), T("="), None)])])]),
            (show, [("w", T("1"), [([[("i", T("1"), T("="), T("zz"))]], T("a"), T("3"))], None)])]


def has_eq_text(b):
    for n in b:
        if n[0] == "t" and "=" in n[1]:
            return True
        if any(has_eq_text(s) for s in subs(n)):
            return True
    return False


def has_ws_sep(b):
    for i, n in enumerate(b):
        if n[0] == "t" and not n[1].strip() and 0 < i < len(b) - 1 and b[i - 1][0] != "t" and b[i + 1][0] != "t":
            return True
        if any(has_ws_sep(s) for s in subs(n)):
            return True
    return False


def size_of(c):
    return len(c["page_text"]) + sum(len(t) + len(n) for n, t in c["db_text"])


def run(run, src):
    tier = run.tier
    n_prog = 3000 if tier == "quick" else 60000
    depth = 4
    exe = build()
    rng = run.rng
    cases = []
    for i, (uni, page) in enumerate(DIRECTED):
        cases.append({"id": len(cases), "uni": uni, "page": page, "directed": True})
    corpus = os.path.join(core.VERIF, "corpus", "C04")
    if os.path.isdir(corpus):
        for fn in sorted(os.listdir(corpus)):
            if fn.startswith("tpl") and fn.endswith(".json"):
                o = json.load(open(os.path.join(corpus, fn)))
                cases.append({"id": len(cases), "uni": _tuplify(o["uni"]), "page": _tuplify(o["page"]), "directed": True})
    for uni, page in eq_family():
        cases.append({"id": len(cases), "uni": uni, "page": page, "directed": True, "family": "eq"})
    for uni, page in num_family():
        cases.append({"id": len(cases), "uni": uni, "page": page, "directed": True, "family": "num"})
    for uni, page in ws_family():
        cases.append({"id": len(cases), "uni": uni, "page": page, "directed": True, "family": "ws"})
    if EQ_BRANCH_ARG:
        for uni, page in eq_branch_family():
            cases.append({"id": len(cases), "uni": uni, "page": page, "directed": True, "family": "eq-branch-arg"})
    n_directed = len(cases)
    n_excluded = 0
    while len(cases) < n_prog + n_directed:
        uni, page = gen_program(rng, depth)
        if not EQ_BRANCH_ARG and (has_eq_branch_arg(page) or any(has_eq_branch_arg(b) for _n, b in uni)):
            n_excluded += 1          # open defect, see EQ_BRANCH_ARG
            continue
        cases.append({"id": len(cases), "uni": uni, "page": page})
    for c in cases:
        c["page_text"] = ser_body(c["page"])
        c["db_text"] = [(n, ser_body(b)) for n, b in c["uni"]]
        c["has_eq"] = has_eq_text(c["page"]) or any(has_eq_text(b) for _n, b in c["uni"])
        c["has_ws_sep"] = has_ws_sep(c["page"]) or any(has_ws_sep(b) for _n, b in c["uni"])
    # model
    p = subprocess.run([exe], input=model_lines(cases), capture_output=True, text=True, timeout=3000)
    if p.returncode != 0:
        raise RuntimeError("c04 model driver failed: " + p.stderr[-500:])
    mres = parse_model_output(p.stdout, cases)
    real = run_real(src, cases, min(16, core.NPROC))
    # is the bare-default defect (undefined behaviour, arbitrary symptoms) present in this tree?  Probe = DIRECTED[5].
    probe = real[5]
    bare_bug = ("crash" in probe) or probe.get("exc") is not None or probe.get("out") != "dflt"
    dis_parse, dis_eval, dis_impl = [], [], []
    sem_hits = []
    dist = {"templates": {}, "depth": {}, "kinds": {}, "outcome": {"ok": 0, "exc": 0, "crash": 0, "eval-none": 0}, "page_chars": {}}
    n_parse = 0
    for c, m in zip(cases, mres):
        r = real[c["id"]]
        dp = max([depth_of(c["page"])] + [depth_of(b) for _n, b in c["uni"]])
        kinds = kinds_of(c["page"], {})
        for _n, b in c["uni"]:
            kinds_of(b, kinds)
        for k, v in kinds.items():
            dist["kinds"][k] = dist["kinds"].get(k, 0) + v
        dist["templates"][str(len(c["uni"]))] = dist["templates"].get(str(len(c["uni"])), 0) + 1
        dist["depth"][str(dp)] = dist["depth"].get(str(dp), 0) + 1
        lb = str(min(len(c["page_text"]) // 50 * 50, 300))
        dist["page_chars"][lb] = dist["page_chars"].get(lb, 0) + 1
        run.count((c["page_text"], tuple(c["db_text"])), nontrivial=(dp >= 2 and len(kinds) >= 3))
        replay = {"kind": "tpl", "page": c["page_text"], "db": _used_templates(c), "expected": m["eval"],
                  "ast": {"uni": c["uni"], "page": c["page"]}}
        if "harness_error" in r:
            r = {"id": r["id"], "page_node": None, "tpl_nodes": {}, "out": None, "exc": "(outside expandTemplates) " + r["harness_error"], "nodump": True}
        bare = bare_bug and (has_bare_default(c["page"]) or any(has_bare_default(b) for _n, b in c["uni"]))
        BARE_FP = "switch-bare-default:no_key_seen[-1]-under-wraparound=False"
        if "crash" in r:
            dist["outcome"]["crash"] += 1
            run.hit(BARE_FP if bare else "crash:" + _h(c),
                    "interpreter crashed (%s) expanding %r with templates %r" % (r["crash"], c["page_text"], dict(c["db_text"])), replay)
            continue
        # (a) parse-level tie
        if r.get("nodump"):
            dist["outcome"]["exc"] += 1
            run.hit(BARE_FP if bare else "exc:" + _h(c), "Expander/parser raised %s on %r with templates %r" % (r["exc"], c["page_text"], dict(c["db_text"])), replay)
            continue
        n_parse += 1 + len(c["uni"])
        if r["page_node"] != m["page_node"]:
            dis_parse.append("page %r: real %s model %s" % (c["page_text"], r["page_node"], m["page_node"]))
        for name, _b in c["uni"]:
            if r["tpl_nodes"][name] != m["tpl_nodes"][name]:
                dis_parse.append("template %r: real %s model %s" % (dict(c["db_text"])[name], r["tpl_nodes"][name], m["tpl_nodes"][name]))
        if r["exc"] is not None:
            dist["outcome"]["exc"] += 1
            run.hit("switch-min-compares-values:TypeError" if "'<' not supported" in r["exc"] else (BARE_FP if bare else "exc:" + r["exc"].split(":")[0] + ":" + _h(c)),
                    "expandTemplates raised %s on %r with templates %r" % (r["exc"], c["page_text"], dict(c["db_text"])), replay)
            continue
        dist["outcome"]["ok"] += 1
        if m["eval"] is None:
            dist["outcome"]["eval-none"] += 1
            dis_eval.append("reference undefined (fuel/missing template) for %r" % c["page_text"])
            continue
        # (b) monitor + tie: real output vs reference semantics
        if r["out"] != m["eval"]:
            cls = "switch-numeric-tie" if (numeric_keys_tie(c["page"]) or any(numeric_keys_tie(b) for _n, b in c["uni"])) else _h(c)
            if has_eq_branch_arg(c["page"]) or any(has_eq_branch_arg(b) for _n, b in c["uni"]):
                cls = EQ_BRANCH_FP
            sem_hits.append((size_of(c), c["id"], BARE_FP if (bare and cls not in ("switch-numeric-tie", EQ_BRANCH_FP)) else "tpl-semantics:" + cls,
                             "expansion differs from the template-language semantics: %r with templates %r gives %r, expected %r"
                             % (c["page_text"], _used_templates(c), r["out"], m["eval"]), replay))
            dis_eval.append("%r / %r: real %r eval %r" % (c["page_text"], dict(c["db_text"]), r["out"], m["eval"]))
        # (b') flatten model vs real
        if r["out"] != m["impl"]:
            dis_impl.append("%r / %r: real %r model %r" % (c["page_text"], dict(c["db_text"]), r["out"], m["impl"]))
        if len(run.samples) < 4 and dp >= 3:
            run.sample({"page": c["page_text"], "templates": dict(c["db_text"]), "expanded": r["out"]})
    # the semantic hits, smallest programs first: the SMALLEST_HITS smallest are reported as violations of their own (one
    # fingerprint per program), every class fingerprint (known defects) once; the number of further failing programs is said
    sem_hits.sort(key=lambda h: (h[0], h[1]))
    reported, seen_fp = 0, set()
    for _sz, _id, fp, what, replay in sem_hits:
        generic = fp.startswith("tpl-semantics:") and fp not in ("tpl-semantics:switch-numeric-tie", "tpl-semantics:" + EQ_BRANCH_FP)
        if generic:
            if reported >= SMALLEST_HITS:
                continue
            reported += 1
            if reported == 1 and len(sem_hits) > 1:
                what += "  [smallest of %d generated programs whose expansion differs from the reference]" % len(sem_hits)
        elif fp in seen_fp:
            continue
        seen_fp.add(fp)
        run.hit(fp, what, replay)
    dist["eq_text"] = {"programs_with_equals_sign_in_a_text_leaf": sum(1 for c in cases if c.get("has_eq")),
                       "deterministic_eq_family": sum(1 for c in cases if c.get("family") == "eq"),
                       "deterministic_num_family": sum(1 for c in cases if c.get("family") == "num"),
                       "deterministic_interior_white_space_family": sum(1 for c in cases if c.get("family") == "ws"),
                       "programs_with_a_white_space_only_text_between_two_nodes": sum(1 for c in cases if c.get("has_ws_sep")),
                       "generated_programs_skipped_for_the_open_equal_split_defect": n_excluded,
                       "VERIF_C04_EQ_BRANCH_ARG": EQ_BRANCH_ARG}
    run.tie("C04(a) templ.parser.parse(serialise p) vs compile p (page + every template)", n_parse, dis_parse)
    run.tie("C04(b) Expander.expandTemplates vs reference eval p", len(cases), dis_eval)
    run.tie("C04(b') Expander.expandTemplates vs flatten model on compile p", len(cases), dis_impl)
    return {
        "rule": ("template programs: universes of 1..4 templates t1..t4 (template i may call only earlier ones), pages and bodies "
                 "generated from the grammar Text | Param(default?) | Call(positional/named args, distinct names) | #if | #ifeq | "
                 "#switch(fall-through groups, #default= or bare default) to nesting depth 4, leaves = words/numbers "
                 "(numerically equal spellings included) with optional surrounding blanks/newlines; EQUALS SIGNS AS TEXT: with "
                 "probability %.2f a text leaf contains '=' (9 spellings: blanks on either/both/no side, doubled, '!=', on its own "
                 "line; at the start, inside, at the end, several) wherever the template language defines it to be text - condition "
                 "and branches of #if, operands and branches of #ifeq, parameter defaults, the value of a named argument and of a "
                 "#switch case/#default after their first '=', page and template text - and never where it is syntax (top level of a "
                 "positional argument, #switch keys, bare #switch default); names of named arguments carry blanks on either side "
                 "({{t| k = v }}) in 30%% of the cases; a deterministic family (eq_family) puts every spelling at every such "
                 "position in one-construct programs; NUMBERS BY VALUE (num_family): %d programs comparing every pair of spellings of the "
                 "same value (8 values x up to 16 spellings: signs, zero padding, trailing .0 / bare point, exponent notation with and "
                 "without a fraction, signed exponents, upper-case E), pairs of different values and non-numbers (1e, e3, 1e3x, ..) in "
                 "#ifeq directly, through positional / named arguments, a parameter default, another template, and as #switch keys "
                 "(literal and computed); the random text leaves use the same spellings; INTERIOR WHITE SPACE: with probability %.2f the comparison "
                 "value of a #switch / an operand of #ifeq is a sequence of 2..3 parameters, calls or conditionals separated by white-space-only "
                 "text (or ' - ', '-', nothing), one case key being the same sequence and (half of the time, before it) the sequence without its "
                 "separators; ws_family: %d one-construct programs with such sequences (separators blank / newline / two blanks / blank+newline / "
                 "empty line; with and without padding at the ends) as #switch value, fall-through and last key, #ifeq operands, #if condition, "
                 "case / #default / bare-default value, positional and named argument, parameter default; plus directed seeds and the corpus; of the programs whose expansion differs from "
                 "the reference the %d smallest are reported; " % (EQ_P, len(num_family()), SEQ_P, len(ws_family()), SMALLEST_HITS) +
                 "distinct = distinct (page text, template texts); non-trivial = depth >= 2 and >= 3 different constructs"),
        "trusted": ["hand-written Gallina model of evaluate.pyx/nodes.pyx (coq/C03/Model.v) and of the expected parse (compile_r = compile with the '=' of argument texts cut out as eqmark; compile_r p = compile p is proved for programs without '='); tied by the runs (a), (b), (b')",
                    "the reference semantics eval (coq/C04/Model.v) is the reading of the property text: PHP trim set, last binding wins, first matching #switch case wins",
                    "templ.parser's tokeniser/brace matcher (not modelled: tie (a) only)"],
        "assumptions": ["OPEN DEFECT excluded from the generated programs until fixes/C04-equal-split-single-node-argument.diff is in /repo "
                        "(VERIF_C04_EQ_BRANCH_ARG=1 includes it): a positional argument / #switch fall-through key / bare default that consists "
                        "of exactly one #if or #ifeq with a branch that is exactly '='",
                        "leaves are ASCII words and numbers [+-]?(digits[.digits*]|.digits)([eE][+-]?digits)? with at most 5 significant digits and exponents -3..5 (no underscore, inf/nan, non-ASCII digits: there int()/float() and PHP is_numeric differ) and '=' / '!=' in text contexts, no other template-syntax characters, blanks are space/newline",
                        "argument names of one call are pairwise distinct; called templates exist; nesting stays below recursion_limit=100",
                        "template names are not magic words"],
        "distribution": {"templates_programs": dist},
        "coverage": {"c04_tpl_cases": len(cases)},
    }


SMALLEST_HITS = 3


def _used_templates(c):
    """the templates the page can reach (a failing input is reported without the templates it never calls)"""
    db = dict(c["db_text"])
    used, todo = {}, [c["page_text"]]
    while todo:
        t = todo.pop()
        for n in db:
            if n not in used and ("{{" + n + "|" in t or "{{" + n + "}}" in t):
                used[n] = db[n]
                todo.append(db[n])
    return used


def _h(c):
    return hashlib.sha256((c["page_text"] + repr(c["db_text"])).encode()).hexdigest()[:10]


def _tuplify(x):
    return x


def replay(r, src):
    inp = json.dumps({"id": 0, "page": r["page"], "db": r["db"]}) + "\n"
    rc, out = core.run_impl("vt.harness.c04_tpl", [], src=src, input=inp, timeout=300)
    o = None
    for ln in out.splitlines():
        if ln.startswith("{"):
            o = json.loads(ln)
    print("page      :", repr(r["page"]))
    print("templates :", r["db"])
    print("expected  :", repr(r.get("expected")))
    if o is None:
        print("no answer from the worker:", out[-500:])
        return 1
    print("real      :", {k: o.get(k) for k in ("out", "exc", "crash")})
    bad = "crash" in o or o.get("exc") is not None or (r.get("expected") is not None and o.get("out") != r["expected"])
    print("REPRODUCED" if bad else "not reproduced")
    return 1 if bad else 0
