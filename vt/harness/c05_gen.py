"""Wikitext generators for C05/C06/C07 (pure Python, no mwlib import).

space 1 (adversarial): grammar-based fragments over the whole wikitext alphabet, including every
   attribute/class/id value that switches an individual cleaner pass on, then mutation (delete / duplicate /
   splice / unbalance).
space 2 (well-formed): documents of a recursive grammar of ordinary printable content (sections with body
   text, paragraphs, nested lists, small tables, styled and linked text, references), every word unique,
   below the cleaner's size heuristics and free of the documented removal triggers.  Dimensions of the grammar:
   body kind of a section (text / links only / list of bare links / formula only), cell content of a table (one
   line / several blocks whose lengths vary from one word to just below the 2500-character table bound), word
   uniqueness (all unique / one repeated fragment, so that structurally EQUAL siblings occur), preformatted blocks
   with captioned images.
families (both spaces): EQUAL OFFENDERS - 2..25 structurally equal nodes (Node.__eq__ is structural: class, caption, children)
   that are all forbidden under ONE ancestor, for every expressible pair of TreeCleaner.forbidden_parents (fix_nesting must
   repair them in a number of steps linear in their count and must not multiply content); NUMERIC ATTRIBUTES - every numeric
   attribute the cleaner / advtree / the writers' style helpers read x every way a number can be (mis)spelled in html
   (float-ish, infinities, nan, exponents that overflow, hex, digit strings beyond CPython's int-conversion limit, Unicode
   digits, signs, blanks), on every element kind that can carry it.
   REFERENCE NAMES - one footnote name written in every way two spellings can be "the same name to a reader": blanks around /
   inside the quoted value, quoting style, case, Unicode look-alikes, each as definition and as empty use, before and after;
   REFERENCE GROUPS - footnotes are numbered per group: every <ref> of the reference families draws its `group` attribute
   (absent / the document's first group / its second group / empty string) independently of its name, for definitions, empty
   uses and empty pairs alike, in every order, written before or after the name (see refgroup, refgroup_sweep);
   CAPTIONED TABLES - a caption of 0..11 inline nodes (text, bold, italics, links, big, ref, image, break) x every size / shape /
   class / style trigger of a table pass of the cleaner (see TABLE_TRIGGERS), with and without lead text (infobox marking);
   LINKS IN REFERENCES (space 2) - the same article linked several times with different / equal / no labels inside one
   reference, across references and in the body text.
space 3 (deep, C05 only): forbidden-nesting pairs and row-copying tables whose offending ancestor also holds a chain
   of 41..DEEP_MAX nested html tags (deep, but parseable: the parser and the passes need 1-2 interpreter frames per
   level, copy.deepcopy ~6) - passes then fail half-way with RecursionError and the tree must still be proper."""
import re


class Words:
    def __init__(self, prefix="w"):
        self.n = 0
        self.prefix = prefix
        self.targets = []        # article targets linked so far in this document (pool for repeated links)
        self.groups = None       # the (two) reference groups of this document, drawn at the first grouped <ref>
        self.links = []          # complete [[..]] link texts written so far

    def __call__(self):
        self.n += 1
        return "%s%d" % (self.prefix, self.n)

    def some(self, rng, lo=1, hi=5):
        return " ".join(self() for _ in range(rng.randint(lo, hi)))


# ------------------------------------------------------------------ space 2
def artlink(rng, W, here=None, p_here=0.0, p_pool=0.15):
    """an article link; its target is fresh, or (p_pool) one that the document links already, or (p_here) one that the same
    reference links already; labelled with fresh words (different labels for one target), unlabelled, or - rarely - an earlier
    link repeated verbatim"""
    r = rng.random()
    if here and r < p_here:
        t = rng.choice(here)
    elif W.targets and r < p_here + p_pool:
        t = rng.choice(W.targets)
    else:
        t = "T%s" % W()
    if t not in W.targets:
        W.targets.append(t)
    if here is not None and t not in here:
        here.append(t)
    k = rng.random()
    same = [x for x in W.links if x.startswith("[[%s|" % t) or x == "[[%s]]" % t]
    if same and k < 0.15:
        x = rng.choice(same)
    elif k < 0.7:
        x = "[[%s|%s]]" % (t, W.some(rng, 1, 3))
    else:
        x = "[[%s]]" % t
    W.links.append(x)
    return x


def refcontent(rng, W):
    """the text of one footnote: words, styled words and article links - 45%% of the links go to an article that this
    footnote links already (with another label, the same label, or none)"""
    here = []
    parts = []
    for _ in range(rng.randint(1, 5)):
        r = rng.random()
        if r < 0.45:
            parts.append(W.some(rng, 1, 4))
        elif r < 0.55:
            parts.append("''%s''" % W.some(rng, 1, 3))
        elif r < 0.92:
            parts.append(artlink(rng, W, here, 0.45, 0.2))
        else:
            parts.append("[http://example.com/%s %s]" % (W(), W.some(rng, 1, 2)))
    if not any(not p.startswith("[[") for p in parts):
        parts.insert(rng.randint(0, len(parts)), W())
    return " ".join(parts)


def refname(rng, named):
    """(attribute text, defines?) for a named reference: a new name, or one of the document's names - as it was written, or
    (25%%) in another spelling of NAME_VARIANTS (blanks, quoting, case, look-alikes): a different name for the cleaner or the
    same one, never a reason to lose the footnote's text"""
    if named and rng.random() < 0.5:
        nm = rng.choice(named)
        if rng.random() < 0.25:
            return spell_name(rng, rng.choice(name_variants(nm))), False
        return '"%s"' % nm, False
    nm = rng.choice(REF_BASES[:3]) + str(len(named) + 1) if rng.random() < 0.3 else "n%d" % (len(named) + 1)
    named.append(nm)
    if rng.random() < 0.25:
        return spell_name(rng, rng.choice(name_variants(nm))), True
    return '"%s"' % nm, True


def inline(rng, W, depth=0, allow_ref=True, named=None):
    parts = []
    for _ in range(rng.randint(1, 4)):
        r = rng.random()
        if r < 0.45 or depth > 1:
            parts.append(W.some(rng, 1, 4))
        elif r < 0.55:
            parts.append("''%s''" % W.some(rng, 1, 3))
        elif r < 0.65:
            parts.append("'''%s'''" % W.some(rng, 1, 3))
        elif r < 0.72:
            parts.append(artlink(rng, W) if rng.random() < 0.4 else "[[T%s|%s]]" % (W(), W.some(rng, 1, 2)))
        elif r < 0.78:
            parts.append("[[T%s]]" % W())
        elif r < 0.82:
            parts.append("<u>%s</u>" % W.some(rng, 1, 2))
        elif r < 0.86:
            parts.append("<small>%s</small>" % W.some(rng, 1, 2))
        elif r < 0.95 and allow_ref:
            content = (lambda: refcontent(rng, W)) if rng.random() < 0.5 else (lambda: inline(rng, W, depth + 2, False))
            if named is not None and rng.random() < 0.35:
                att, defines = refname(rng, named)
                # the group is drawn per <ref>, independently of the name (a name is still DEFINED once per document)
                if not defines:
                    parts.append("<ref%s/>" % ref_attrs(rng, "name=" + att, refgroup(rng, W, 0.3)))
                elif rng.random() < 0.2:          # used before it is defined (the definition follows at once)
                    parts.append("<ref%s/> %s <ref%s>%s</ref>" % (ref_attrs(rng, "name=" + att, refgroup(rng, W, 0.3)), W.some(rng, 1, 2),
                                                                  ref_attrs(rng, "name=" + att, refgroup(rng, W, 0.3)), content()))
                else:
                    parts.append("<ref%s>%s</ref>" % (ref_attrs(rng, "name=" + att, refgroup(rng, W, 0.3)), content()))
            elif named is not None:
                parts.append("<ref%s>%s</ref>" % (ref_attrs(rng, "", refgroup(rng, W, 0.12)), content()))
            else:
                parts.append("<ref>%s</ref>" % content())
        else:
            parts.append("[http://example.com/%s %s]" % (W(), W.some(rng, 1, 2)))
    return " ".join(parts)


def barelink(rng, W):
    """visible content that is NOT carried by a Text node: label-less links, bare URLs"""
    r = rng.random()
    if r < 0.45:
        return "[[%s %s]]" % (W().capitalize(), W()) if rng.random() < 0.5 else "[[T%s]]" % W()
    if r < 0.85:
        return "http://example.com/%s" % W()
    return "[[:T%s]]" % W()


def linkbody(rng, W):
    """a section body without any plain word: only links / a list of links / a formula"""
    r = rng.random()
    if r < 0.4:
        mark = rng.choice("*#")
        return [mark + " " + barelink(rng, W) for _ in range(rng.randint(1, 4))] + [""]
    if r < 0.7:
        return [" ".join(barelink(rng, W) for _ in range(rng.randint(1, 3))), ""]
    if r < 0.8:
        return [barelink(rng, W), "", barelink(rng, W), ""]
    if r < 0.9:
        return ["<math>%s</math>" % W(), ""]
    return [": " + barelink(rng, W), ""]


def para_of(W, nwords):
    return " ".join(W() for _ in range(nwords))


def cellblocks(rng, W, budget):
    """the content of one multi-block cell: 1-4 blocks (paragraph / list) whose lengths are drawn from
    {1-5, 10-60, 100-330} words, within `budget` characters; returns (lines, chars used)"""
    lines = []
    used = 0
    for _ in range(rng.randint(1, 4)):
        k = rng.random()
        n = rng.randint(1, 5) if k < 0.45 else rng.randint(10, 60) if k < 0.7 else rng.randint(100, 330)
        n = min(n, max(1, (budget - used) // 7))
        if rng.random() < 0.8:
            t = [para_of(W, n)]
        else:
            m = rng.randint(1, 4)
            t = ["* " + para_of(W, max(1, n // m)) for _ in range(m)]
        lines += t + [""]
        used += sum(len(x) for x in t)
        if used >= budget - 10:
            break
    return lines, used


def bigtable(rng, W):
    """2-4 rows x 2-3 columns, written one cell per line; one or two cells hold several blocks of widely varying
    length.  The whole table stays below 2400 characters (the property's bound: 2500 per table, 5000 per cell)."""
    rows, cols = rng.randint(2, 4), rng.randint(2, 3)
    out = ["{|" + rng.choice(["", ' class="wikitable"', ' border="1"'])]
    budget = 2300
    multi = {(rng.randrange(rows), rng.randrange(cols)) for _ in range(rng.randint(1, 2))}
    for r in range(rows):
        out.append("|-")
        for c in range(cols):
            if (r, c) in multi:
                ls, used = cellblocks(rng, W, budget)
                budget -= used
                if ls[0].startswith("*"):
                    out.append("|")
                    out.extend(ls)
                else:
                    out.append("| " + ls[0])
                    out.extend(ls[1:])
            else:
                t = W.some(rng, 1, 3)
                budget -= len(t)
                out.append("| " + t)
    out.append("|}")
    return out


def preblock(rng, W):
    """a preformatted block (lines with a leading blank) of text, optionally with captioned images"""
    out = []
    for _ in range(rng.randint(1, 3)):
        parts = [W.some(rng, 1, 4)]
        for _i in range(rng.choice([0, 0, 1, 2])):
            parts.append("[[File:%s.png|%s]]" % (W(), W.some(rng, 1, 2)))
            parts.append(W.some(rng, 1, 2))
        out.append(" " + " ".join(parts))
    return out + [""]


REPEATABLE = re.compile(r"\[\[File:[^\]]*\]\]|\[\[[^\]|]*\]\]|'''[^']+'''|''[^']+''|<u>[^<]*</u>|<small>[^<]*</small>")


def repeat_fragment(rng, lines):
    """word uniqueness is a dimension of the grammar too: repeat one inline element (after one separating word) or one
    list item / table cell line verbatim, so that structurally EQUAL sibling nodes occur"""
    idx = [i for i, l in enumerate(lines) if l and not l.startswith(("=", "{|", "|}", "|-", "|+", "<references"))]
    if not idx:
        return lines
    i = rng.choice(idx)
    l = lines[i]
    m = list(REPEATABLE.finditer(l))
    if m and rng.random() < 0.7:
        x = rng.choice(m)
        return lines[:i] + [l[:x.end()] + " sep%d " % i + x.group(0) + l[x.end():]] + lines[i + 1:]
    # a named reference is defined once (a second, equal definition is merged by design); the name may follow a group attribute
    if l[0] in "*#|!" and not re.search(r"<ref\b[^>]*\bname", l, re.I):
        return lines[:i + 1] + [l] + lines[i + 1:]
    return lines


def wlist(rng, W, prefix, named):
    """a list whose items carry the marker `prefix`+kind; sublists extend the marker (proper nesting)"""
    out = []
    mark = prefix + rng.choice("*#")
    for _ in range(rng.randint(1, 4)):
        out.append(mark + " " + W() + " " + inline(rng, W, 1, named=named))   # an item always carries a plain word
        if len(mark) < 3 and rng.random() < 0.3:
            out.extend(wlist(rng, W, mark, named))
    return out


def table(rng, W, named, rows=None, cols=None):
    rows = rows or rng.randint(1, 4)
    cols = cols or rng.randint(1, 4)
    out = ["{|" + rng.choice(["", ' class="wikitable"', ' border="1"'])]
    if rng.random() < 0.3:
        # a caption is a run of inline nodes like any other line of text (plain words, or styled / linked text, footnotes)
        out.append("|+ " + (W.some(rng, 1, 3) if rng.random() < 0.5 else inline(rng, W, 1, allow_ref=rng.random() < 0.3)))
    for r in range(rows):
        out.append("|-")
        if r == 0 and rng.random() < 0.4:
            out.append("! " + " !! ".join(W.some(rng, 1, 2) for _ in range(cols)))
        elif rng.random() < 0.5:
            out.append("| " + " || ".join(inline(rng, W, 1, named=named) for _ in range(cols)))
        else:
            for _ in range(cols):
                out.append("| " + inline(rng, W, 1, named=named))
    out.append("|}")
    return out


def block(rng, W, named):
    r = rng.random()
    if r < 0.45:
        return [inline(rng, W, named=named), ""]
    if r < 0.68:
        return wlist(rng, W, "", named) + [""]
    if r < 0.82:
        return table(rng, W, named) + [""]
    if r < 0.88:
        return bigtable(rng, W) + [""]
    if r < 0.91:
        return preblock(rng, W)
    if r < 0.93:        # 2..25 equal (or, as control, distinct) offenders under one forbidden ancestor, each carrying words
        return equal_offenders(rng, W, wordy=True, contexts=EQ_ORDINARY).strip("\n").split("\n") + [""] if rng.random() < 0.8 else preblock(rng, W)
    if r < 0.95:
        return linkbody(rng, W)
    if r < 0.97 and named is not None:      # one footnote name in several spellings, defined once
        return [ln for ln in refname_doc(rng, W, ordinary=True).split("\n") if not ln.startswith(("==", "<references"))]
    return [": " + inline(rng, W, 1, named=named), ""]


def section(rng, W, level, named, budget):
    out = ["=" * level + " " + W.some(rng, 1, 3) + " " + "=" * level]
    if rng.random() < 0.12:
        # the body is visible but holds no plain word (label-less links, bare URLs, a formula): such a section is not
        # "empty" - an empty section has nothing to print
        out.extend(linkbody(rng, W))
        if rng.random() < 0.3:
            out.extend(linkbody(rng, W))
    else:
        out.extend([W.some(rng, 1, 2) + " " + inline(rng, W, named=named), ""])          # body text (plain words)
        for _ in range(rng.randint(0, 2)):
            out.extend(block(rng, W, named))
    while level < 4 and budget[0] > 0 and rng.random() < 0.4:
        budget[0] -= 1
        out.extend(section(rng, W, level + 1, named, budget))
    return out


def wellformed(rng, named_refs=False):
    W = Words()
    named = [] if named_refs else None
    out = []
    for _ in range(rng.randint(0, 2)):
        out.extend(block(rng, W, named))
    budget = [rng.randint(1, 6)]
    while budget[0] > 0:
        budget[0] -= 1
        out.extend(section(rng, W, 2, named, budget))
    if rng.random() < 0.7:
        out.extend(["== %s ==" % W.some(rng, 1, 2), W.some(rng, 1, 3), "", "<references/>", ""])
    out.extend(group_lists(rng, W))
    if rng.random() < 0.12:
        out = repeat_fragment(rng, out)
    return "\n".join(out)


# ------------------------------------------------------------------ space 1
STYLES = ["overflow:auto;height:200px", "overflow:auto; height:150pt", "position:absolute", "position:relative;top:1px",
          "display:none", "visibility:hidden", "width:100px", "height:300px;overflow:auto", "direction:rtl",
          "page-break-before:always", "float:right", "border:1px solid", "OVERFLOW:AUTO;HEIGHT:500px"]
CLASSES = ["noprint", "navbox", "infobox", "metadata", "printonly", "infobox collapsible collapsed", "wikitable", "mp-upper",
           "hatnote", "sortable", "NavFrame", "editlink", "toccolours"]
IDS = ["region_list", "noprint", "toc", "mp-upper", "x"]
TAGS = ["div", "span", "center", "blockquote", "pre", "code", "source", "tt", "u", "s", "small", "big", "sub", "sup", "cite", "var",
        "b", "i", "em", "strong", "font", "h2", "h3", "ul", "ol", "li", "dl", "dt", "dd", "p", "table", "tr", "td", "th", "caption",
        "gallery", "imagemap", "ref", "references", "math", "nowiki", "timeline", "poem", "strike", "del", "ins", "abbr", "kbd",
        "ruby", "rb", "rt", "rp", "index", "hr", "br"]


# every unit css knows (the style helper understands pt px em %; the others must be ignored, not crash), bare numbers,
# keywords and garbage - for every length-valued property
UNITS = ["px", "pt", "em", "%", "in", "cm", "mm", "ex", "pc", "rem", "vh", ""]
NUMBERS = ["0", "1", "50", "99", "100", "101", "150", "300", "1000", "0.5", "12.5", ".5", "-20", "+5", "1e3", "00"]
LENGTH_WORDS = ["auto", "inherit", "none", "thin", "abc", "", "%", "px", "1 px", "50 %", "calc(100% - 2px)", "0x10", "1,5em", "NaNpx"]
LENGTH_PROPS = ["height", "width", "max-height", "min-height", "max-width", "top", "left", "margin", "margin-left", "margin-top",
                "padding", "font-size", "line-height", "border-width", "border-spacing", "text-indent"]
KEYWORD_PROPS = {"overflow": ["auto", "AUTO", "Auto", " auto ", "scroll", "hidden", "visible", "auto auto"],
                 "position": ["absolute", "relative", "fixed", "static", "ABSOLUTE", " absolute"],
                 "display": ["none", "block", "inline", "table-cell"],
                 "visibility": ["hidden", "visible", "collapse"],
                 "direction": ["rtl", "ltr"], "float": ["left", "right", "none"], "clear": ["both"],
                 "text-align": ["center", "right"], "page-break-before": ["always"], "border": ["1px solid", "0", "none"],
                 "background-color": ["#eee", "transparent"], "color": ["red"]}
# a pass trigger together with the parameter that the triggered pass reads
TRIGGER_PARAM = {"overflow": "height", "position": "top"}


def length(rng):
    if rng.random() < 0.15:
        return rng.choice(LENGTH_WORDS)
    return rng.choice(NUMBERS) + rng.choice(["", "", "", " "]) + rng.choice(UNITS)


def style(rng):
    """a css declaration list: every trigger x every unit/number/keyword of the length it makes the cleaner read"""
    decls = []
    if rng.random() < 0.4:
        t = rng.choice(sorted(TRIGGER_PARAM))
        decls.append("%s:%s" % (t, KEYWORD_PROPS[t][0] if rng.random() < 0.7 else rng.choice(KEYWORD_PROPS[t])))
        if rng.random() < 0.8:                                   # ... or the trigger without the parameter
            decls.append("%s:%s" % (TRIGGER_PARAM[t], length(rng)))
    for _ in range(rng.randint(0 if decls else 1, 2)):
        if rng.random() < 0.5:
            decls.append("%s:%s" % (rng.choice(LENGTH_PROPS), length(rng)))
        else:
            k = rng.choice(sorted(KEYWORD_PROPS))
            decls.append("%s:%s" % (k, rng.choice(KEYWORD_PROPS[k])))
    rng.shuffle(decls)
    sep = rng.choice([";", "; ", " ; ", ";"])
    txt = sep.join(decls) + rng.choice(["", ";", ""])
    return txt.upper() if rng.random() < 0.05 else txt


def attrs(rng):
    a = []
    if rng.random() < 0.45:
        a.append('style="%s"' % (";".join(rng.sample(STYLES, rng.randint(1, 2))) if rng.random() < 0.5 else style(rng)))
    if rng.random() < 0.3:
        a.append('class="%s"' % rng.choice(CLASSES))
    if rng.random() < 0.25:
        a.append('id="%s"' % rng.choice(IDS))
    if rng.random() < 0.1:
        a.append(rng.choice(['colspan="3"', 'rowspan="2"', 'colspan="99"', 'colspan="x"', 'STYLE="Overflow:Auto;height:900px"',
                             'name="n1"', 'align="right"', 'dir="rtl"', 'border="1"']))
    if rng.random() < 0.08:
        v = rng.choice(NUM_SPELLINGS)
        if len(v) < 50:                         # (documents of this generator are cut at 4000 characters)
            a.append(numattr(rng, val=v))
    rng.shuffle(a)
    return (" " + " ".join(a)) if a else ""


def frag(rng, W, depth=0):
    r = rng.random()
    d = depth + 1
    if depth > 4 or r < 0.18:
        return W.some(rng, 1, 4)
    if r < 0.24:
        lvl = rng.randint(1, 5)
        return "\n" + "=" * lvl + rng.choice([" ", ""]) + rng.choice([W.some(rng, 0, 2), "", "See also", "<center>%s</center>" % W(), frag(rng, W, d)]) + " " + "=" * rng.choice([lvl, lvl, lvl + 1]) + "\n"
    if r < 0.32:
        pre = rng.choice(["*", "#", "**", "*#", ":", ";", ":*", "#:", "***", ";:"])
        return "\n" + "\n".join(pre[:rng.randint(1, len(pre))] + " " + frag(rng, W, d + 1) for _ in range(rng.randint(1, 7))) + "\n"
    if r < 0.44:
        rows = rng.choice([1, 1, 2, 2, 3, 5]) if rng.random() < 0.93 else rng.choice([26, 26, 40])
        cols = rng.choice([1, 1, 2, 2, 3, 4]) if rng.random() < 0.93 else rng.choice([16, 16, 31])
        out = ["\n{|" + attrs(rng)]
        if rng.random() < 0.2:
            out.append("|+" + frag(rng, W, d + 2))
        for _ in range(rows):
            out.append("|-" + (attrs(rng) if rng.random() < 0.2 else ""))
            for _c in range(cols):
                cell = frag(rng, W, d + 1) if rng.random() < (0.5 if rows * cols < 20 else 0.03) else W()
                out.append(rng.choice(["|", "!"]) + ((attrs(rng).strip() + " |") if rng.random() < 0.2 else "") + " " + cell)
        if rng.random() < 0.93:
            out.append("|}")
        return "\n".join(out) + "\n"
    if r < 0.62:
        t = rng.choice(TAGS)
        if t in ("br", "hr"):
            return rng.choice(["<%s/>", "<%s>", "<%s />", "</%s>"]) % t
        if t == "references":
            return rng.choice(["<references/>", "<references>%s</references>" % frag(rng, W, d)])
        if t == "ref":
            nm = rng.choice(["", "", 'name="n1"', 'name="n2"', 'name=n1', 'name="n1"',
                             "name=" + spell_name(rng, rng.choice(name_variants(rng.choice(["n1", "n2", "a b"]))))])
            nm = ref_attrs(rng, nm, refgroup(rng, W, 0.3, keycase=True))      # name x group, independently
            return rng.choice(["<ref%s>%s</ref>" % (nm, frag(rng, W, d + 1)), "<ref%s/>" % nm, "<ref%s></ref>" % nm, "<ref%s>x</ref>" % nm])
        if t == "gallery":
            return "\n<gallery%s>\nFile:%s.jpg|%s\nImage:%s.png\n%s\n</gallery>\n" % (attrs(rng), W(), frag(rng, W, d + 2), W(), W())
        if t == "math":
            return "<math>%s</math>" % rng.choice(["x^2", "\\begin{align} a &= b \\end{align}", "\\frac{1}{2}", ""])
        if t == "timeline":
            return "<timeline>\nImageSize = width:100 height:100\n</timeline>"
        if t == "imagemap":
            return "<imagemap>\nFile:%s.jpg|100px|%s\nrect 0 0 10 10 [[%s]]\n</imagemap>" % (W(), W(), W())
        inner = frag(rng, W, d) if rng.random() < 0.8 else "\n".join(frag(rng, W, d) for _ in range(3))
        close = "</%s>" % t if rng.random() < 0.9 else ""
        return "<%s%s>%s%s" % (t, attrs(rng), inner, close)
    if r < 0.72:
        k = rng.random()
        if k < 0.25:
            return "[[%s|%s]]" % (W(), frag(rng, W, d + 1))
        if k < 0.4:
            return "[[%s:%s.%s|%s%s]]" % (rng.choice(["File", "Image", "Datei"]), rng.choice([W(), "BSicon_x"]), rng.choice(["jpg", "png", "ogg", "svg"]),
                                          rng.choice(["thumb|", "frame|", "left|", "100px|", "", "thumb|right|"]), frag(rng, W, d + 1))
        if k < 0.5:
            return "[[%s:%s]]" % (rng.choice(["Category", "de", "fr", ":Category", "wikt", "Talk", ":de"]), W())
        if k < 0.6:
            return "[http://example.com/%s%s %s]" % (W(), rng.choice(["", "?action=edit"]), rng.choice([W(), "", frag(rng, W, d + 1)]))
        if k < 0.7:
            return "http://example.com/%s" % W()
        if k < 0.8:
            return "{{%s|%s}}" % (rng.choice(["t1", "t2", "t3", "t4", "t5", W()]), frag(rng, W, d + 1))
        if k < 0.9:
            return "[[%s]]" % W()
        return "[[File:BSicon %s.svg]]" % W()
    if r < 0.8:
        q = rng.choice(["''", "'''", "'''''", "''", "'''"])
        return q + frag(rng, W, d) + rng.choice([q, q, q, ""])
    if r < 0.86:
        return rng.choice(["\n\n", "\n", "\n ", "\n----\n", " ", "<br/>", "<br/><br/>", "\n<br/>\n", "&nbsp;", "&amp;", "__TOC__", "<!-- c -->", "\n:", "\n;t:d"])
    return " ".join(frag(rng, W, d) for _ in range(rng.randint(2, 4)))


def adversarial(rng):
    W = Words()
    k = rng.random()
    if k < 0.10:                                # family: numeric attributes x number spellings
        t = numeric_doc(rng)
        if rng.random() < 0.3:
            t = frag(rng, W, 2) + "\n" + t + frag(rng, W, 2)
        return t
    if k < 0.15:                                # family: equal offenders under one forbidden ancestor
        W = Words("v")
        t = equal_offenders(rng, W)
        if rng.random() < 0.3:
            t = frag(rng, W, 2) + "\n" + t + frag(rng, W, 2)
        return t
    if k < 0.19:                                # family: captioned tables x table-pass triggers
        t = captioned_table(rng, W)
        if rng.random() < 0.2:
            t = t + frag(rng, W, 2)
        return t
    if k < 0.23:                                # family: one reference name in many spellings
        t = refname_doc(rng, W)
        if rng.random() < 0.3:
            t = frag(rng, W, 2) + "\n" + t + frag(rng, W, 2)
        return t
    n = rng.randint(1, 7)
    text = "".join(frag(rng, W, 0) + rng.choice(["", " ", "\n", "\n\n"]) for _ in range(n))
    # mutation
    for _ in range(rng.choice([0, 0, 1, 2, 4])):
        if not text:
            break
        k = rng.random()
        i = rng.randrange(len(text))
        j = min(len(text), i + rng.randint(1, 12))
        if k < 0.3:
            text = text[:i] + text[j:]
        elif k < 0.5:
            text = text[:j] + text[i:j] + text[j:]
        elif k < 0.7:
            a = rng.randrange(len(text))
            b = min(len(text), a + rng.randint(1, 40))
            text = text[:i] + text[a:b] + text[i:]
        elif k < 0.85:
            text = text[:i] + rng.choice(["<", ">", "|", "{|", "|}", "[[", "]]", "''", "\n", "=", "</div>", "<div>", "<ref>", "</ref>", "{{", "}}", "\n*", "\n|-\n", "<br>"]) + text[i:]
        else:
            text = text[:i] + text[i:j][::-1] + text[j:]
    return text[:4000]



# ------------------------------------------------------------------ family: numeric attributes x number spellings
# every way a number can be (mis)spelled in an html attribute: what int() takes, what only float() takes (incl. the values
# float() maps to infinities / nan), what neither takes, and what int() takes unexpectedly (underscores, Unicode digits)
NUM_SPELLINGS = [
    "0", "1", "2", "3", "10", "99", "100000", "-1", "-0", "+2", "007", " 2", "2 ", " 2 ", "\t2",
    "2.0", "3.5", ".5", "5.", "-2.5", "1e3", "1E2", "1e-3", "2e0", "1e308", "1e309", "1e999", "9e400", "-1e999", "1e+999",
    "inf", "-inf", "+inf", "Inf", "INF", "infinity", "Infinity", "-Infinity", "INFINITY", "nan", "NaN", "-nan", "+NAN",
    "0x10", "0X1F", "0b11", "0o7", "1_0", "1__0", "_1", "1,5", "1 000", "1/2",
    "²", "٣", "３", "௧", "१२", "Ⅳ", "½", "١e999", "٣.0", "-٣",
    "", " ", "abc", "x", "2px", "50%", "100%", "1e", "e5", ".", "-", "+", "--1", "1-", "2;", "'2'", "2\"",
    "9" * 20, "1" + "0" * 400, "9" * 4300, "9" * 4301, "-" + "9" * 4301, "1" + "0" * 5000,
]
# attributes with a numeric reading in html; those the anchored code reads by name are added at run time (set_read_attrs)
NUM_ATTRS_STATIC = ["colspan", "rowspan", "width", "height", "start", "value", "border", "cellpadding", "cellspacing", "size",
                    "span", "cols", "rows", "perrow", "widths", "heights", "border-spacing", "tabindex", "hspace", "vspace"]
NUM_ATTRS = list(NUM_ATTRS_STATIC)
READ_ATTRS = []          # literal keys the anchored sources read from attributes / vlist / style (filled by the check)
SPAN_ATTRS = ["colspan", "rowspan"]


READ_STYLES = []         # literal keys read from a node's style dict


def set_read_attrs(names, styles=()):
    """names / styles: literal keys that the cleaner, advtree and the style helpers read from node.attributes / vlist resp.
    from the style dict in the CURRENT source (found by vt.props.c05.read_attr_names).  Every one of them gets the full
    number-spelling sweep."""
    del READ_ATTRS[:]
    READ_ATTRS.extend(sorted(set(names)))
    del READ_STYLES[:]
    READ_STYLES.extend(sorted(set(styles)))
    del NUM_ATTRS[:]
    NUM_ATTRS.extend(NUM_ATTRS_STATIC + [n for n in READ_ATTRS if n not in NUM_ATTRS_STATIC])
    for n in READ_STYLES:
        if n not in LENGTH_PROPS and n not in KEYWORD_PROPS:
            LENGTH_PROPS.append(n)


def quote(rng, v):
    k = rng.random()
    if "\"" in v or k < 0.15:
        return "'%s'" % v if "'" not in v else '"%s"' % v.replace('"', "")
    if k < 0.25 and v and not re.search(r"[\s'\"<>|=]", v):
        return v
    return '"%s"' % v


def numattr(rng, name=None, val=None):
    name = name or (rng.choice(SPAN_ATTRS) if rng.random() < 0.4 else rng.choice(NUM_ATTRS))
    val = rng.choice(NUM_SPELLINGS) if val is None else val
    if rng.random() < 0.1:
        name = name.upper() if rng.random() < 0.5 else name.capitalize()
    return "%s=%s" % (name, quote(rng, val))


def numattrs(rng, p=0.7):
    """an attribute string ('' or ' a=.. b=..') whose values are number spellings"""
    if rng.random() > p:
        return ""
    a = [numattr(rng) for _ in range(rng.choice([1, 1, 1, 2, 3]))]
    if rng.random() < 0.15:
        a.append('style="%s:%s%s"' % (rng.choice(LENGTH_PROPS), rng.choice(NUM_SPELLINGS[:70]), rng.choice(UNITS)))
    return " " + " ".join(a)


# element kinds that can carry the attribute; {a} = attribute slot, {w} = a fresh word
NUM_CONTEXTS = [
    "{{|{a}\n|-{a}\n|{b} w1\n|{b} w2\n|-\n!{b} w3\n| w4\n|}}\n",
    "{{|{a}\n|+{b} cap\n|-\n|{b} w1 ||{b} w2\n|-\n| w3 || w4\n|}}\n",
    "<table{a}><tr{a}><td{a}>w1</td><th{a}>w2</th></tr><tr><td>w3</td><td{a}>w4</td></tr></table>\n",
    "{{|\n|-\n|{b}\n{{|{a}\n|-\n|{b} w1\n|}}\n| w2\n|}}\n",                                   # nested table in a spanned cell
    "{{|\n|-\n|{b} w1\n|-\n|{b} w2\n|}}\n",                                                # single-column table
    "{{|\n|-\n|{b}\n* w1\n* w2\n* w3\n* w4\n* w5\n* w6\n|{b}\n* w7\n|}}\n",                    # split_table_lists
    "<ol{a}><li{a}>w1</li><li{a}>w2</li></ol>\n<ul{a}><li{a}>w3</li></ul>\n",
    "<div{a}>w1 <span{a}>w2</span></div>\n<center{a}>w3</center>\n<p{a}>w4</p>\n",
    "<font{a}>w1</font> <hr{a}/> <br{a}/> <big{a}>w2</big> <pre{a}>w3</pre> <blockquote{a}>w4</blockquote>\n",
    "<gallery{a}>\nFile:w1.jpg|w2\nFile:w3.jpg\n</gallery>\n",
    "w1<ref{a}>w2</ref> w3<ref{a}/>\n\n<references{a}/>\n",
    "<dl{a}><dt{a}>w1</dt><dd{a}>w2</dd></dl>\n<h2{a}>w3</h2>\nw4\n",
    "<source{a}>w1</source>\n<poem{a}>w2</poem>\n<math{a}>w3</math>\n<timeline{a}>\nImageSize = width:100 height:100\n</timeline>\n",
    "<caption{a}>w1</caption><tr{a}><td{a}>w2</td></tr><li{a}>w3</li>\n",                  # stray table / list parts
]
IMG_MODS = ["%spx", "x%spx", "%sx%spx", "upright=%s", "upright %s", "page=%s", "%s px", "thumb|%spx", "border|%spx|w2", "%s"]


def numeric_doc(rng):
    """one element context whose attribute slots carry numeric attributes with number spellings (or an image whose size
    modifiers are number spellings)"""
    if rng.random() < 0.12:
        m = rng.choice(IMG_MODS)
        vals = tuple(rng.choice(NUM_SPELLINGS) for _ in range(m.count("%s")))
        return "w1 [[File:w0.%s|%s]] w3\n" % (rng.choice(["png", "jpg", "svg"]), m % vals)
    ctx = rng.choice(NUM_CONTEXTS)
    out = []
    for piece in re.split(r"(\{a\}|\{b\})", ctx):
        if piece == "{a}":
            out.append(numattrs(rng, 0.5))
        elif piece == "{b}":
            t = numattrs(rng, 0.6)
            out.append((t + " |") if t else "")
        else:
            out.append(piece.replace("{{", "{").replace("}}", "}"))
    return "".join(out)


def numeric_sweep():
    """attribute x spelling, exhaustively, on the element the attribute belongs to: the span attributes and every attribute
    the anchored code reads by name, on a table cell of a two-row table (so that the colspan passes run) resp. on a div and a
    table; every style property the anchored code reads by name, bare and with a unit, next to the trigger that makes a
    pass read it"""
    docs = []
    names = SPAN_ATTRS + [n for n in READ_ATTRS if n not in SPAN_ATTRS and n != "style"]
    for n in names:
        for v in NUM_SPELLINGS:
            q = "'%s'" % v if '"' in v else '"%s"' % v
            if n in SPAN_ATTRS or n in ("width", "height", "align", "valign", "bgcolor", "border", "summary"):
                docs.append("{|\n|-\n| %s=%s | a\n| b\n|-\n| c || d\n|}\n" % (n, q))
            else:
                docs.append('<div %s=%s>a</div>\n{| %s=%s\n|-\n| b\n|}\n' % (n, q, n, q))
    for n in READ_STYLES:
        for v in NUM_SPELLINGS:
            if '"' in v or ";" in v or len(v) > 450:
                continue
            docs.append('<div style="overflow:auto;position:absolute;%s:%s">a</div>\n{| style="%s:%spx;overflow:auto"\n|-\n| b\n|}\n' % (n, v, n, v))
    return docs


# ------------------------------------------------------------------ family: structurally equal offenders under one forbidden ancestor
# Node.__eq__ is structural (class, caption, children); an ImageLink's target is not part of it.  One entry per expressible
# pair of TreeCleaner.forbidden_parents: (open, close, separator between offenders, offenders).  "%s" in an offender is
# replaced by ONE word for all copies (equal) - or by a fresh word per copy (distinct) as the control group.
EQ_IMG = ["[[File:%s.png]]", "[[Image:%s.jpg]]", "[[File:%s.png|thumb]]", "[[File:%s.png|%s]]"]
EQ_CONTEXTS = [
    (" ", "\n", " ", EQ_IMG + ["<center>%s</center>", "<blockquote>%s</blockquote>", "<ul><li>%s</li></ul>", "<source>%s</source>",
                              "<p>%s</p>", "<gallery>\nFile:%s.jpg\n</gallery>"]),
    ("<pre>", "</pre>\n", " ", EQ_IMG),
    ("<code>", "</code>\n", " ", ["<pre>%s</pre>"]),
    ("<code>x ", "</code>\n", "", ["<pre>%s</pre>"]),
    ("\n: ", "\n", " ", ["<table><tr><td>%s</td></tr></table>", "<gallery>\nFile:%s.jpg\n</gallery>"]),
    ("\n; ", "\n", " ", ["<table><tr><td>%s</td></tr></table>", "<gallery>\nFile:%s.jpg\n</gallery>"]),
    ("\n; t : ", "\n", " ", ["<table><tr><td>%s</td></tr></table>"]),
    ("<b>", "</b>\n", " ", ["<source>%s</source>"]),
    ("<i><u>", "</u></i>\n", " ", ["<source>%s</source>"]),
    ("<small><sup>", "</sup></small>\n", " ", ["<source>%s</source>"]),
    ("<p>", "</p>\n", " ", ["<dl><dd>%s</dd></dl>", "<dl><dt>%s</dt></dl>"]),
    ("", "\n", "\n", [": %s", "; %s", ": ''%s''"]),                                         # equal indented lines inside ONE paragraph
]


# the subset that is ordinary printable content (C07's grammar): captioned images in a preformatted line, equal indented
# lines / equal one-line definition items inside one paragraph
EQ_ORDINARY = [
    (" ", "\n", " ", ["[[File:%s.png|%s]]"]),
    ("", "\n", "\n", [": %s", ": %s %s", ": ''%s''"]),
]


def equal_offenders(rng, W, n=None, wordy=False, contexts=None):
    """n equal (85%) or pairwise distinct offenders, all forbidden under the same ancestor, optionally with text between
    them.  wordy: every offender carries words (so that C07's word count sees a multiplied or lost copy)."""
    op, cl, sep, offs = rng.choice(contexts or EQ_CONTEXTS)
    off = rng.choice(offs)
    if wordy and "%s" in off and off.startswith("[["):
        off = "[[File:%s.png|%s]]"
    if n is None:
        n = rng.choice([2, 3, 4, 5, 6, 8, 9, 10, 12, 14, 16, 20, 25])
    equal = rng.random() < 0.85
    k = off.count("%s")
    one = tuple(W() for _ in range(k))
    between = rng.choice(["", "", "word", "fresh"]) if sep != "\n" else rng.choice(["word", "fresh"])
    parts = []
    if rng.random() < 0.6 or sep == "\n":
        parts.append(W())
    for i in range(n):
        parts.append(off % (one if equal else tuple(W() for _ in range(k))))
        if i < n - 1 or rng.random() < 0.5:
            if between == "word":
                parts.append("sep")
            elif between == "fresh":
                parts.append(W())
    body = sep.join(parts) if sep else "".join(p if p.startswith("<") else " %s " % p for p in parts)
    return op + body + cl


# ------------------------------------------------------------------ family: one reference name, many spellings
REF_BASES = ["n", "smith", "Doe 2010", "a b c", "ref-1", "Émile", "note_2"]
LOOKALIKE = {"a": "а", "e": "е", "o": "о", "c": "с", "p": "р", "i": "і", "s": "ѕ", "n": "ｎ",
             "1": "１", "2": "٢", "0": "О", "-": "‐", "_": "＿", "E": "Е", "D": "Ꭰ", "É": "É"}


def name_variants(base):
    """spellings a reader (or the Cite extension) may or may not take for the same footnote name as `base`: surrounding /
    inner blanks (space, tab, no-break space, zero-width space, ideographic space, underscore), case, Unicode look-alikes
    (Cyrillic / fullwidth / decomposed letters and digits), quote characters inside the value, trailing punctuation"""
    v = [base, " " + base, base + " ", " " + base + " ", "  " + base + "  ", "\t" + base, base + "\t", "\u00a0" + base, base + "\u00a0",
         base + "\u200b", "\u3000" + base + "\u3000", "_" + base, base + "_"]
    if " " in base:
        v += [base.replace(" ", "  "), base.replace(" ", "_"), base.replace(" ", "\u00a0"), base.replace(" ", "\t"), base.replace(" ", "")]
    else:
        h = max(1, len(base) // 2)
        v += [base[:h] + " " + base[h:], base[:h] + "_" + base[h:]]
    v += [base.upper(), base.lower(), base.capitalize(), base.swapcase(), base.title()]
    for i, ch in enumerate(base):
        if ch in LOOKALIKE:
            v.append(base[:i] + LOOKALIKE[ch] + base[i + 1:])
    v.append("".join(LOOKALIKE.get(ch, ch) for ch in base))
    v += ['"%s"' % base, "'%s'" % base, '"%s' % base, "%s'" % base, "%s." % base, "%s:" % base]
    out = []
    for x in v:
        if x not in out and x and "<" not in x and ">" not in x:
            out.append(x)
    return out


def spell_name(rng, v):
    """the attribute value as it is written in the tag: double quotes, single quotes, or bare"""
    k = rng.random()
    if '"' in v:
        return "'%s'" % v if "'" not in v else '"%s"' % v.replace('"', "")
    if k < 0.2 and "'" not in v:
        return "'%s'" % v
    if k < 0.35 and not re.search(r"[\s'\"<>|=/\u00a0\u3000\u200b]", v):
        return v
    return '"%s"' % v


# ------------------------------------------------------------------ family: reference groups
# Footnotes are numbered per group (<ref group="note">..</ref>, listed by <references group="note"/>): the group is a second
# key of a reference next to its name and independent of it.  Whatever the cleaner makes of a name that occurs in two groups
# (HEAD ignores the group), the footnote's nodes must stay in ONE place and its words must not get lost.
REF_GROUPS = ["note", "lower-alpha", "nb 1", "N", "Émile", "n", "smith"]


# A name DEFINED in two groups (<ref name="a">x</ref> .. <ref name="a" group="note">y</ref>: two footnotes) is ordinary content
# too, but /repo HEAD keys its table of definitions by name only and drops the text of the second one (word loss, C07) - see
# /verif/fixes/C07-ref-name-per-group.diff.  The ordinary grammar (space 2) writes such pairs only when this is switched on
# (switch it on together with the fix); space 1 has them regardless.
GROUPED_REDEFINITION = True


def refgroup(rng, W, p=0.5, other_than=None, keycase=False):
    """the group of one <ref>: '' (absent, probability 1-p) or 'group=..' with the document's first group, its second group or
    the empty string (absent, to a reader), quoted like a name; the two groups are drawn once per document.
    other_than: a group attribute text - the result then names a different group (absent and empty are the same group)"""
    if other_than is not None:
        for _ in range(50):
            x = refgroup(rng, W, p, keycase=keycase)
            if group_value(x) != group_value(other_than):
                return x
        p = 1.0
    if p <= 0 or rng.random() >= p:
        return ""
    if not W.groups:
        W.groups = rng.sample(REF_GROUPS, 2)
    g = rng.choice([W.groups[0], W.groups[0], W.groups[1], W.groups[1], ""])
    if other_than is not None:
        g = [x for x in W.groups if x != group_value(other_than)][0]
    if not g:
        return "group=%s" % rng.choice(['""', "''"])
    k = "group" if not keycase or rng.random() < 0.93 else rng.choice(["GROUP", "Group"])      # (keys keep their case in vlist)
    return "%s=%s" % (k, spell_name(rng, g))


def group_value(group_att):
    """'group="note"' -> 'note'; '' -> ''"""
    return group_att.partition("=")[2].strip("\"'") if group_att else ""


def ref_attrs(rng, name_att, group_att):
    """' name=.. group=..' in either order (or only one of them, or '')"""
    a = [x for x in (name_att, group_att) if x]
    if len(a) == 2 and rng.random() < 0.4:
        a.reverse()
    return "".join(" " + x for x in a)


def group_lists(rng, W):
    """the footnote lists of the document's groups (each with probability 1/2), under a heading with body text"""
    out = []
    for g in W.groups or []:
        if rng.random() < 0.5:
            out += ["== %s ==" % W.some(rng, 1, 2), W.some(rng, 1, 3), "", '<references group="%s"/>' % g, ""]
    return out


def refgroup_sweep():
    """ONE name x the group of each occurrence (absent / g / h / empty), exhaustively, in small documents: definition + empty use
    (self-closing or empty pair) in both orders; use + definition + use; two definitions (+ a use); group written before or
    after the name"""
    docs = []
    slots = ["", ' group="g"', ' group="h"', ' group=""']
    tail = '\n\n<references/>\n<references group="g"/>\n'
    for name in ("n", "smith"):
        nm = ' name="%s"' % name
        for a in slots:
            for b in slots:
                if name != "n" and a == b:
                    continue
                d = "<ref%s%s>w2 w3</ref>" % ((nm, a) if name == "n" else (a, nm))
                for u in ("<ref%s%s/>" % (nm, b), "<ref%s%s></ref>" % (b, nm)):
                    docs.append("w1%s w4%s w5%s" % (d, u, tail))
                    docs.append("w1%s w4%s w5%s" % (u, d, tail))
                if name == "n":
                    d2 = "<ref%s%s>w6 w7</ref>" % (nm, b)
                    docs.append("w1%s w4%s w5%s" % (d, d2, tail))
                    for c in slots:
                        u2 = "<ref%s%s/>" % (nm, c)
                        docs.append("w1%s w4%s w5%s w8%s" % (u2, d, "<ref%s%s/>" % (nm, b), tail))
                        docs.append("w1%s w4%s w5%s w8%s" % (d, d2, u2, tail))
                        docs.append("w1%s w4%s w5%s w8%s" % (u2, d, d2, tail))
    return docs


def refname_doc(rng, W, ordinary=False):
    """2..6 occurrences of ONE footnote name, each in a spelling of name_variants (50%: as is), each a definition (content
    words), an empty use or an empty pair; at least one definition and one empty use; in running text, list items or table
    cells, optionally in different sections.  In 60% of the documents every occurrence also draws a group (refgroup),
    independently of the spelling of its name"""
    base = rng.choice(REF_BASES)
    if ordinary:          # ... and is unique in the document (two such blocks, or a name of refname(), would define it twice)
        base = "%s.%d" % (base, W.n)
    vs = name_variants(base)
    pg = 0.0 if rng.random() < 0.4 else rng.choice([0.3, 0.6, 0.6, 1.0])      # 40%: no groups at all
    n = rng.randint(2, 6)
    kinds = ["def", "use"] + [rng.choice(["def", "use", "use", "pair"]) for _ in range(n - 2)]
    rng.shuffle(kinds)
    if ordinary:          # a name is defined once (a second definition of the same name is merged by design) ...
        kinds = ["def"] + ["use"] * (n - 1)
        if GROUPED_REDEFINITION and pg > 0 and rng.random() < 0.4:      # ... per group
            kinds[1] = "def2"
        rng.shuffle(kinds)
    out = []
    defgroup = None
    for k in kinds:
        v = base if rng.random() < 0.5 else rng.choice(vs)
        att = ("%s=%s" if ordinary or rng.random() < 0.85 else rng.choice(["%s = %s", "%s= %s"])) % (
            "name" if ordinary or rng.random() < 0.9 else rng.choice(["NAME", "Name"]), spell_name(rng, v))
        ga = refgroup(rng, W, pg, other_than=defgroup if k.startswith("def") else None, keycase=not ordinary)     # the group of THIS occurrence
        if k.startswith("def"):
            defgroup = ga
            k = "def"
        att = ref_attrs(rng, att, ga)
        if k == "def":
            r = "<ref%s>%s</ref>" % (att, refcontent(rng, W) if rng.random() < 0.5 else W.some(rng, 1, 3))
        elif k == "use":
            r = "<ref%s/>" % att
        else:
            r = "<ref%s></ref>" % att
        out.append(r)
    lines = []
    lay = rng.random()
    if lay < 0.5:
        lines += [" ".join("%s%s" % (W.some(rng, 1, 3), r) for r in out) + " " + W(), ""]
    elif lay < 0.7:
        lines += ["* %s %s" % (W.some(rng, 1, 2), r) for r in out] + [""]
    elif lay < 0.85:
        lines += ["{|", "|-"] + ["| %s %s" % (W(), r) for r in out] + ["|-"] + ["| %s" % W() for _ in out] + ["|}", ""]
    else:
        for r in out:
            lines += ["== %s ==" % W.some(rng, 1, 2), "%s %s %s" % (W.some(rng, 1, 3), r, W()), ""]
    if rng.random() < 0.7:
        lines += ["== %s ==" % W.some(rng, 1, 2), W.some(rng, 1, 3), "", "<references/>", ""]
    if not ordinary:          # (an ordinary block is part of a document that lists its groups itself, see wellformed)
        lines += group_lists(rng, W)
    return "\n".join(lines)


def refname_sweep():
    """base name x variant, exhaustively, in small documents: the definition carries one spelling and the empty use the other
    (both directions), the use before and after the definition"""
    docs = []

    def q(x):
        return "'%s'" % x if '"' in x else '"%s"' % x

    for base in REF_BASES[:3]:
        for v in name_variants(base)[1:]:
            for a, b in ((v, base), (base, v)):
                docs.append("w1<ref name=%s>w2 w3</ref> w4<ref name=%s/> w5\n\n<references/>\n" % (q(a), q(b)))
                docs.append("w1<ref name=%s/> w4<ref name=%s>w2 w3</ref> w5\n\n<references/>\n" % (q(b), q(a)))
    return docs


def reflink_sweep():
    """space 2: one article linked twice - label x label (different / equal / none), inside one footnote, across two footnotes,
    in the body text and a footnote, in a named footnote that is used twice"""
    docs = []
    l1s = ["[[Tw90|w91 w92]]", "[[Tw90]]"]
    l2s = ["[[Tw90|w93 w94 w95]]", "[[Tw90|w91 w92]]", "[[Tw90]]"]
    for l1 in l1s:
        for l2 in l2s:
            docs.append("== w1 ==\nw2 w3<ref>w4 %s w5 %s w6</ref> w7\n\n== w8 ==\nw9\n\n<references/>\n" % (l1, l2))
            docs.append("== w1 ==\nw2 w3<ref>w4 %s</ref> w5<ref>%s w6</ref> w7\n\n== w8 ==\nw9\n\n<references/>\n" % (l1, l2))
            docs.append("== w1 ==\nw2 %s w3<ref>w4 %s w5</ref> w7\n\n* w10 %s\n\n== w8 ==\nw9\n\n<references/>\n" % (l1, l2, l2))
            docs.append('== w1 ==\nw2 w3<ref name="n1">%s %s</ref> w7<ref name="n1"/>\n\n== w8 ==\nw9\n\n<references/>\n' % (l1, l2))
    return docs


# ------------------------------------------------------------------ family: captioned tables x the triggers of every table pass
# captions by number / kind of inline nodes (the parser makes one node per text run, style, link, tag)
CAPTIONS = [
    "cap",
    "cap '''bold'''",
    "Results of the '''2010''' season, [[see also]] the ''notes''",
    "a '''b''' c ''d'' e [[f]] g <u>h</u> i <small>j</small> k",
    "<big>head</big> a '''b''' c [[d|e]] f <big>g</big> h",
    "x<ref>note</ref> y [[File:a.png|20px]] z<br/>w ''v''",
    "",
    "a [[b]] [[c]] [[d]] [[e]] [[f]] [[g]] [[h]] [[i]] [[j]] [[k]] [[l]] [[m]] [[n]] [[o]] [[p]] [[q]]",
]


def _items(n, w="it"):
    return "\n".join("* %s%d" % (w, i) for i in range(n))


def _chars(n, w="ch"):
    return " ".join("%s%d" % (w, i) for i in range(n // 6 + 1))


def _nested(rows, cols, attr="", w="n"):
    return "\n{|%s\n" % attr + "\n".join("|-\n" + "\n".join("| %s%d_%d" % (w, r, c) for c in range(cols)) for r in range(rows)) + "\n|}\n"


# name -> (table attributes, body after the caption line); one entry per size / shape / class / style condition that a table
# pass of treecleaner.py tests (the pass / helper is named in the comment)
TABLE_TRIGGERS = {
    "plain-2x2": ("", "|-\n| a || b\n|-\n| c || d"),
    "plain-1x2": ("", "|-\n| a || b"),
    "big-cell-list": ("", "|-\n| left\n|\n%s" % _items(28)),                                 # split_table_to_columns / _is_big_cell: list > 25 items
    "big-cell-chars": ("", "|-\n| left\n| %s" % _chars(5200)),                               # _is_big_cell: > 5000 characters
    "big-cell-nested-rows": ("", "|-\n| left\n|%s" % _nested(26, 2)),                        # _is_big_cell: nested table >= 25 rows
    "big-cell-nested-cols": ("", "|-\n| left\n|%s" % _nested(1, 31)),                        # _is_big_cell: numcols > 30; linearize_wide_nested_tables
    "split-class": (' class="mp-upper"', "|-\n| a || b\n|-\n| c || d"),                      # split_table_class_ids
    "split-id": (' id="mp-upper"', "|-\n| a\n| b\n| c"),
    "border-tables": ("", "|-\n|%s%s\n|%s" % (_nested(1, 1, ' border="1"'), _nested(1, 1, ' border="1"'), _nested(1, 1, ' border="1"'))),   # _should_split_table_based_on_border_count
    "headings-lists": ("", "|-\n|\n<big>h1</big>\n%s\n|\n%s\n|\n%s" % (_items(4, "p" * 250), _items(4, "q" * 250), _items(4, "r" * 250))),  # _should_split_table_based_on_headings_and_lists
    "single-col-long": ("", "|-\n| %s\n|-\n| x" % _chars(2700)),                             # transform_single_col_tables: is_long
    "single-col-one-row": ("", "|-\n| only"),
    "single-col-images": ("", "|-\n| [[File:a.png]]\n|-\n| [[File:b.png]]"),
    "single-col-gallery": ("", "|-\n|\n<gallery>\nFile:a.jpg|cap\n</gallery>\n|-\n| x"),
    "single-col-many-cells": ("", "\n".join("|-\n| r%d" % i for i in range(205))),
    "nested-container": ("", "|-\n|%s" % _nested(8, 3, w="nestedword")),                     # transform_nested_tables: > 500 characters, tables only
    "nested-single": ("", "|-\n|%s" % _nested(2, 2)),                                        # _remove_if_single_table
    "wide-nested": ("", "|-\n| a\n|%s" % _nested(2, 17)),                                    # linearize_wide_nested_tables: > 15 columns
    "tall-cell": ("", "|-\n| l\n|\n%s\n\n%s\n\n%s\n|-\n| x\n| y" % (_chars(1500), _chars(1500, "d"), _chars(1200, "e"))),   # split_big_table_cells
    "list-rows": ("", "|-\n|\n%s\n|\n%s" % (_items(7), _items(2, "k"))),                     # split_table_lists
    "navbox": (' class="navbox"', "|-\n| a || b"),                                           # remove_critical_tables
    "scroll": (' style="overflow:auto;height:200px"', "|-\n| a || b\n|-\n| c || d"),         # remove_scroll_elements
    "scroll-cell": ("", '|-\n| a\n|\n<div style="overflow:auto;height:300px">s</div>\n|-\n| c || d'),
    "empty-trailing-rows": ("", "|-\n| a || b\n|-\n| ||\n|-\n|"),                            # remove_empty_training_table_rows
    "unnest-ending": ("", "|-\n| a || b\n|-\n| colspan=2 |%s" % _nested(22, 1)),             # unnest_ending_cell_content
    "colspan-single": ("", "|-\n| colspan=9 | a\n|-\n| b || c"),                             # fix_table_colspans
    "empty-ending-cells": ("", "|-\n| a || b || ||"),
    "wide-16": ("", "|-\n" + "\n".join("| c%d" % i for i in range(16))),
    "rows-26": ("", "\n".join("|-\n| a%d || b%d" % (i, i) for i in range(26))),
    "noprint": (' class="noprint"', "|-\n| a || b"),
    "infobox": (' class="infobox"', "|-\n| a || b\n|-\n|\n%s\n| c" % _items(27)),
    "sections-in-cell": ("", "|-\n|\n== h ==\n%s\n| b" % _chars(2100)),                      # remove_big_sections_from_cells
}
LEAD = " ".join("lead%d" % i for i in range(40)) + "\n\n"


def captioned_table_text(attrs_, body, caps, where="top"):
    cl = "".join("|+ %s\n" % c for c in caps)
    if where == "top":
        return "{|%s\n%s%s\n|}\n" % (attrs_, cl, body)
    if where == "bottom":
        return "{|%s\n%s\n%s|}\n" % (attrs_, body, cl)
    return "{|%s\n%s%s\n%s|}\n" % (attrs_, cl, body, cl)          # both


def captioned_table_sweep():
    """trigger x caption, exhaustively, with lead text (so that the table is not marked as infobox); plus, for the plain caption
    and the six-node caption, without lead text and with the caption below the rows"""
    docs = []
    for name in sorted(TABLE_TRIGGERS):
        a, body = TABLE_TRIGGERS[name]
        for i, cap in enumerate(CAPTIONS):
            docs.append(LEAD + captioned_table_text(a, body, [cap]))
            if i in (0, 2):
                docs.append(captioned_table_text(a, body, [cap]))
                docs.append(LEAD + captioned_table_text(a, body, [cap], "bottom"))
    return docs


# space 2: the table shapes below the size heuristics on which a table pass still acts (single column / single row are
# dissolved, list-only rows are split, lonely colspans are fixed) x captions of 1..11 inline nodes x caption above / below
ORDINARY_CAPTIONS = ["c1", "c1 '''c2'''", "c1 '''c2''' c3 [[Tc4|c5]] c6 ''c7''",
                     "c1 '''c2''' c3 ''c4'' c5 [[Tc6]] c7 <u>c8</u> c9 <small>c10</small> c11", "c1<ref>c2 c3</ref> c4"]
ORDINARY_SHAPES = {
    "1x1": "|-\n| w1", "1x3": "|-\n| w1 || w2 || w3", "3x1": "|-\n| w1\n|-\n| w2\n|-\n| w3", "2x2": "|-\n| w1 || w2\n|-\n| w3 || w4",
    "list-row": "|-\n|\n%s\n|\n* k1\n* k2\n|-\n| w1 || w2" % _items(7), "list-row-only": "|-\n|\n%s\n|\n* k1\n* k2" % _items(7),
    "header": "|-\n! h1 !! h2\n|-\n| w1 || w2", "colspan": "|-\n| colspan=2 | w1\n|-\n| w2 || w3",
    "images": "|-\n| [[File:a.png|w1]]\n|-\n| [[File:b.png|w2]]"}


def ordinary_table_sweep():
    docs = []
    for name in sorted(ORDINARY_SHAPES):
        for cap in ORDINARY_CAPTIONS:
            for pos in ("top", "bottom"):
                for lead in ("== s1 ==\ns2 s3\n\n", ""):
                    docs.append(lead + captioned_table_text("", ORDINARY_SHAPES[name], [cap], pos) + "\ns4\n")
    return docs


CAPTION_NODES = ["%s", "'''%s'''", "''%s''", "[[%s]]", "[[T|%s]]", "<big>%s</big>", "<u>%s</u>", "%s<br/>", "<ref>%s</ref>",
                 "[http://example.com/x %s]", "<span>%s</span>", "<small>%s</small>"]


def captioned_table(rng, W):
    """a random member of the same family: random trigger, 1-2 captions (one of CAPTIONS or a generated run of 1..12 inline
    nodes), random extra attributes, random position of the caption, inside a div / cell / region_list now and then"""
    a, body = TABLE_TRIGGERS[rng.choice(sorted(TABLE_TRIGGERS))]
    caps = []
    for _ in range(rng.choice([1, 1, 1, 2])):
        if rng.random() < 0.4:
            caps.append(rng.choice(CAPTIONS))
        else:
            caps.append(" ".join(rng.choice(CAPTION_NODES) % W() for _i in range(rng.randint(1, 12))))
    if rng.random() < 0.25:
        a = a + attrs(rng)
    t = captioned_table_text(a, body, caps, rng.choice(["top", "top", "top", "bottom", "both"]))
    k = rng.random()
    if k < 0.1:
        t = "<div%s>\n%s</div>\n" % (attrs(rng), t)
    elif k < 0.15:
        t = "{|\n|-\n| o1\n|\n%s| o2\n|}\n" % t
    elif k < 0.2:
        t = '<div id="region_list">\n%s</div>\n' % t
    return (LEAD if rng.random() < 0.75 else "") + t


# hand-written seeds that reach the individual passes (always run first)
SEEDS = [
    "== a ==\ntext\n<h2></h2>\npara\n",
    '<div id="region_list">\n{|\n|-\n| a || b\n|-\n| c || d\n|}\n</div>\n',
    '<div id="region_list"><center>\n{|\n|-\n| a || b\n|}\n</center></div>\n',
    '<div style="overflow:auto;height:200px">\n{|\n|-\n| a\n|}\nx</div>\n',
    '{| style="overflow:auto;height:200px"\n|-\n| a\n{|\n|-\n| b\n|}\n|}\n',
    'a<ref name="n1"/> b<ref name="n1">def words</ref>\n\n<references/>\n',
    '<div class="noprint">x<ref name="n1">def</ref></div> y<ref name="n1"/>\n',
    '<div style="position:absolute"><div style="position:relative">x</div></div>\n',
    " pre [[File:x.jpg]] text\n pre2\n",
    "<u><center>x</center></u>\n",
    "; term : desc\n: d2\n",
    "<gallery>\nFile:a.jpg|cap\n</gallery>\n{|\n|-\n|\n<gallery>\nFile:b.jpg\n</gallery>\n|}\n",
    "{|\n|-\n|\n* a\n* b\n* c\n* d\n* e\n* f\n|\n* g\n|}\n",
    "<br/><br/>\n== h ==\n<br/>x<br/>\n",
    "== See also ==\n* [[x]]\n",
    "<pre>\na\nb\n</pre>\n",
    "* <ul><li>x</li></ul>\n",
    "<li>lonely</li>\n<td>cell</td>\n",
]
# trigger x unit, exhaustively: each element kind that can carry the trigger, each unit of the length the pass reads
SEEDS += ['<div style="overflow:auto; height:50%s">text<br/>more</div>\n\nafter\n' % u for u in UNITS + ["auto", "abc"]]
SEEDS += ['{| style="overflow:auto;height:120%s"\n|-\n| a || b\n|-\n| c || d\n|}\n' % u for u in UNITS]
SEEDS += ['<div style="position:absolute; top:5%s">x</div><span style="position:relative;left:1%s">y</span>\n' % (u, u) for u in UNITS]


# ------------------------------------------------------------------ space 3 (deep; C05 only)
DEEP_MAX = 330          # a third of CPython's default recursion limit: parser and passes (1-2 frames per level) cope, deepcopy does not
CHAIN_TAGS = ["span", "b", "i", "u", "small", "big", "sub", "sup", "s", "em", "strong", "font", "cite", "var", "tt", "abbr", "del",
              "ins", "div", "center", "blockquote"]
# (forbidden ancestor open, close, offenders) per entry of TreeCleaner.forbidden_parents, plus the row-copying table passes
OFFENDERS_PRE = ["[[Image:%s.png]]", "[[File:%s.jpg|thumb|cap]]", "<center>%s</center>", "<blockquote>%s</blockquote>",
                 "<ul><li>%s</li></ul>", "<source>%s</source>", "<gallery>\nFile:%s.jpg\n</gallery>", "<p>%s</p>"]
DEEP_CONTEXTS = [
    ("<code>", "</code>\n", ["<pre>%s</pre>"]),
    (" ", "\n", OFFENDERS_PRE),
    ("\n: ", "\n", ["<table><tr><td>%s</td></tr></table>", "<gallery>\nFile:%s.jpg\n</gallery>"]),
    ("\n; ", "\n", ["<table><tr><td>%s</td></tr></table>", "<gallery>\nFile:%s.jpg\n</gallery>"]),
    ("<b>", "</b>\n", ["<source>%s</source>"]),
    ("<i><u>", "</u></i>\n", ["<source>%s</source>"]),
    ("<p>", "</p>\n", ["<dl><dd>%s</dd></dl>", "\n; %s : d\n"]),
    ("{|\n|-\n| ", "\n|\n* g\n|}\n", ["\n* %s\n* b\n* c\n* d\n* e\n* f\n"]),                    # split_table_lists copies the row
    ("{|\n|-\n| l\n| ", "\n|-\n| x\n| y\n|}\n", ["\n\n" + " ".join("big%d" % i for i in range(200)) + " %s\n"]),   # split_big_table_cells
]


def chain(rng, depth, inner):
    if rng.random() < 0.6:
        tags = [rng.choice(CHAIN_TAGS[:18])] * depth
    else:
        tags = [rng.choice(CHAIN_TAGS) for _ in range(depth)]
    return "".join("<%s>" % t for t in tags) + inner + "".join("</%s>" % t for t in reversed(tags))


def deep(rng):
    """one forbidden-nesting context (or row-copying table, or any adversarial document) in which one fragment is wrapped
    into a chain of 41..DEEP_MAX nested tags; the chain is a sibling of the offender, or wraps the offender itself"""
    W = Words()
    depth = rng.randint(41, DEEP_MAX)
    if rng.random() < 0.75:
        op, cl, offs = rng.choice(DEEP_CONTEXTS)
        off = rng.choice(offs) % W()
        k = rng.random()
        if k < 0.55:
            body = rng.choice([W() + " ", ""]) + chain(rng, depth, W()) + " " + off + rng.choice(["", " " + W()])
        elif k < 0.75:
            body = W() + " " + off + " " + chain(rng, depth, W())
        elif k < 0.9:
            body = W() + " " + chain(rng, depth, off) + " " + W()
        else:
            body = chain(rng, depth // 2, W()) + " " + off + " " + W() + " " + off + chain(rng, depth, W())
        text = op + body + cl
        if rng.random() < 0.3:
            text = frag(rng, W, 2) + "\n" + text + frag(rng, W, 2)
        return text
    text = adversarial(rng)
    words = list(re.finditer(r"\bw\d+\b", text))
    if not words:
        return chain(rng, depth, text)
    x = rng.choice(words)
    return text[:x.start()] + chain(rng, depth, x.group(0)) + text[x.end():]
