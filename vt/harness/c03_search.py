"""C03 search worker: expands wikitext with the REAL Expander of the snapshot (PYTHONPATH is set by core.run_impl).

stdin : JSON lines {"id", "text" (or "text_rle": [[piece, repeat], ..]), "lang", "db": {name: text}, "pagename"[, "limit": recursion limit, "budget": max
        number of template-call dispatches, "cpu_limit": seconds]}   (or {"id", "introspect": true})
stdout: one JSON line per request:
        {"id", "outcome": "ok"|"exc"|"nonstr"|"timeout"|"budget", "exc": "Type: msg"[:200], "cpu": process-time seconds,
         "outlen": len(result), "out": first 120 chars, "dispatches": number of expander.resolver(..) calls}
Each call is guarded by a virtual-time (CPU) interval timer plus a wall-clock backstop.  Everything the library
prints goes to /dev/null; the protocol uses a private copy of the original stdout."""
import inspect
import json
import logging
import os
import signal
import sys
import time
import warnings

warnings.simplefilter("ignore")
logging.disable(logging.CRITICAL)

_proto = os.fdopen(os.dup(1), "w", buffering=1)
_null = os.open(os.devnull, os.O_WRONLY)
os.dup2(_null, 1)
os.dup2(_null, 2)
sys.stdout = open(os.devnull, "w")
sys.stderr = sys.stdout

import mwlib.parser.expander  # noqa: E402,F401  (must precede templ.evaluate: circular import otherwise)
from mwlib.network.siteinfo import get_siteinfo  # noqa: E402
from mwlib.parser.templ import magic_nodes, magics  # noqa: E402
from mwlib.parser.templ.evaluate import Expander  # noqa: E402
from mwlib.parser.templ.misc import DictDB  # noqa: E402

try:
    import qs.log
    qs.log.root_logger.disabled = True
except Exception:
    pass

import resource  # noqa: E402

CPU_LIMIT = float(os.environ.get("C03_CPU_LIMIT", "10"))
# a call that builds an unbounded structure must end in MemoryError inside this worker, not in the OOM killer
MEM_LIMIT = int(float(os.environ.get("C03_MEM_LIMIT_GB", "4")) * (1 << 30))
try:
    resource.setrlimit(resource.RLIMIT_AS, (MEM_LIMIT, MEM_LIMIT))
except (ValueError, OSError):
    pass
WALL_LIMIT = float(os.environ.get("C03_WALL_LIMIT", "60"))


class _Timeout(BaseException):
    pass


class _Budget(BaseException):
    """more template-call dispatches than the request allows (BaseException: no `except Exception` may hide it)"""


class _CountingResolver:
    """stands in for Expander.resolver (an instance attribute set by Expander.__init__): every Template node calls
    expander.resolver(name, args) exactly once (nodes.pyx Template._flatten), so the number of calls is a
    deterministic measure of the work done by one expansion, independent of the machine's load"""

    def __init__(self, inner, budget):
        self.__dict__["_inner"] = inner
        self.__dict__["calls"] = 0
        self.__dict__["budget"] = budget

    def __call__(self, *a, **kw):
        d = self.__dict__
        d["calls"] += 1
        if d["budget"] is not None and d["calls"] > d["budget"]:
            raise _Budget()
        return d["_inner"](*a, **kw)

    def __getattr__(self, k):
        return getattr(self.__dict__["_inner"], k)

    def __setattr__(self, k, v):
        setattr(self.__dict__["_inner"], k, v)


def _on_alarm(signum, frame):
    raise _Timeout()


signal.signal(signal.SIGVTALRM, _on_alarm)
signal.signal(signal.SIGALRM, _on_alarm)


def _sig_of(f):
    s = inspect.signature(f, follow_wrapped=False)
    mn = mx = 0
    var = False
    for p in s.parameters.values():
        if p.kind in (p.POSITIONAL_ONLY, p.POSITIONAL_OR_KEYWORD):
            mx += 1
            if p.default is p.empty:
                mn += 1
        elif p.kind == p.VAR_POSITIONAL:
            var = True
    return [mn, mx, var]


def introspect():
    cls = magics.MagicResolver
    names = sorted(n for n in dir(cls) if not n.startswith("_"))
    chains = {}
    for n in names:
        if n != n.upper():
            continue
        raw = inspect.getattr_static(cls, n)
        if isinstance(raw, str):
            chains[n] = "str"
            continue
        if raw is None:
            chains[n] = "none"
            continue
        if not inspect.isfunction(raw):
            chains[n] = "other:" + type(raw).__name__
            continue
        ch = []
        f = raw
        while f is not None and len(ch) < 10:
            ch.append(_sig_of(f))
            f = getattr(f, "__wrapped__", None)
        chains[n] = ch
    reg = {}
    for k, v in magic_nodes.registry.items():
        if inspect.isclass(v):
            try:
                fs = _sig_of(v.flatten)
            except (TypeError, ValueError):
                fs = None
            reg[k] = {"factory": False, "flatten": fs}
        else:
            reg[k] = {"factory": True, "ctor": _sig_of(v)}
    # every compiled regular expression reachable from the pp module (globals and closure cells of its functions)
    import re as _re
    from mwlib.parser.templ import pp
    pats = set()
    for v in vars(pp).values():
        if isinstance(v, _re.Pattern):
            pats.add((v.pattern, v.flags))
        if inspect.isfunction(v) and v.__closure__:
            for cell in v.__closure__:
                try:
                    cv = cell.cell_contents
                except ValueError:
                    continue
                if isinstance(cv, _re.Pattern):
                    pats.add((cv.pattern, cv.flags))
    # every compiled regular expression held by the other modules of the expansion path (module globals, closure cells, class
    # attributes) and by a Parser instance of every known site (name2rx is built from the site's magic word aliases)
    import importlib
    rx = set()

    def _collect(tag, ns):
        for v in list(ns.values()):
            if isinstance(v, _re.Pattern):
                rx.add((tag, v.pattern, v.flags))
            elif inspect.isfunction(v) and v.__closure__:
                for cell in v.__closure__:
                    try:
                        cv = cell.cell_contents
                    except ValueError:
                        continue
                    if isinstance(cv, _re.Pattern):
                        rx.add((tag, cv.pattern, cv.flags))
            elif inspect.isclass(v) and getattr(v, "__module__", None) == ns.get("__name__"):
                for cv in vars(v).values():
                    if isinstance(cv, _re.Pattern):
                        rx.add((tag, cv.pattern, cv.flags))

    rx_errors = []
    for modname in ("mwlib.parser.templ.magics", "mwlib.parser.templ.magic_nodes", "mwlib.parser.templ.magic_time", "mwlib.parser.expr",
                    "mwlib.parser.templ.parser", "mwlib.parser.templ.scanner"):
        try:
            _collect(modname.split(".")[-1], vars(importlib.import_module(modname)))
        except Exception as e:  # noqa: BLE001
            rx_errors.append("%s: %s: %s" % (modname, type(e).__name__, e))
    try:
        from mwlib.network import siteinfo as _si
        from mwlib.parser.templ.parser import Parser as _Parser
        d = os.path.join(os.path.dirname(_si.__file__), "known_sites")
        for fn in sorted(os.listdir(d)):
            if fn.startswith("siteinfo-") and fn.endswith(".json"):
                lang = fn[len("siteinfo-"):-len(".json")]
                pr = _Parser("x", siteinfo=get_siteinfo(lang))
                for v in vars(pr).values():
                    if isinstance(v, _re.Pattern):
                        rx.add(("parser-instance:" + lang, v.pattern, v.flags))
                    elif isinstance(v, dict):
                        for cv in v.values():
                            if isinstance(cv, _re.Pattern):
                                rx.add(("parser-instance:" + lang, cv.pattern, cv.flags))
    except Exception as e:  # noqa: BLE001
        rx_errors.append("Parser instances: %s: %s" % (type(e).__name__, e))
    dummies = sorted(k for k in vars(magics.DummyResolver) if not k.startswith("_")) if hasattr(magics, "DummyResolver") else []
    return {"public": names, "chains": chains, "registry": sorted(magic_nodes.registry), "registry_info": reg,
            "file": magics.__file__, "pp_patterns": sorted([p, f] for p, f in pats),
            "rx_patterns": sorted([t, p, f] for t, p, f in rx), "rx_errors": rx_errors, "dummies": dummies}


def run_one(req):
    d = DictDB(dict(req.get("db") or {}))
    d.siteinfo = get_siteinfo(req.get("lang") or "en")
    res = {"id": req["id"]}
    t0 = time.process_time()
    cpu_limit = float(req.get("cpu_limit") or CPU_LIMIT)
    signal.setitimer(signal.ITIMER_VIRTUAL, cpu_limit)
    signal.setitimer(signal.ITIMER_REAL, WALL_LIMIT)
    counter = None
    try:
        try:
            kw = {}
            if req.get("limit") is not None:
                kw["recursion_limit"] = int(req["limit"])
            text = req["text"] if "text" in req else "".join(s * n for s, n in req["text_rle"])
            exp = Expander(text, pagename=req.get("pagename", "thispage"), wikidb=d, **kw)
            counter = _CountingResolver(exp.resolver, req.get("budget"))
            exp.resolver = counter
            out = exp.expandTemplates()
        finally:
            signal.setitimer(signal.ITIMER_VIRTUAL, 0)
            signal.setitimer(signal.ITIMER_REAL, 0)
        if isinstance(out, str):
            res.update(outcome="ok", outlen=len(out), out=out[:120])
        else:
            res.update(outcome="nonstr", exc="returned %s" % type(out).__name__, outlen=0)
    except _Timeout:
        res.update(outcome="timeout", exc="no result after %.0fs CPU / %.0fs wall" % (cpu_limit, WALL_LIMIT), outlen=0)
    except _Budget:
        res.update(outcome="budget", exc="more than %s template-call dispatches" % req.get("budget"), outlen=0)
    except BaseException as e:  # noqa: BLE001 - the monitor wants every escape
        msg = "%s: %s" % (type(e).__name__, e)
        res.update(outcome="exc", exc=msg[:200], outlen=0)
    res["cpu"] = round(time.process_time() - t0, 5)
    res["dispatches"] = counter.__dict__["calls"] if counter is not None else 0
    return res


def _child(reqs, wfd):
    out = os.fdopen(wfd, "w", buffering=1)
    for req in reqs:
        if req.get("introspect"):
            try:
                r = introspect()
                r["id"] = req["id"]
            except Exception as e:  # noqa: BLE001
                r = {"id": req["id"], "harness_error": "%s: %s" % (type(e).__name__, e)}
        else:
            r = run_one(req)
        out.write(json.dumps(r) + "\n")
        out.flush()
    out.close()
    os._exit(0)


_TICK = os.sysconf("SC_CLK_TCK")


def _cpu_of(pid):
    """user + system CPU seconds consumed so far by process `pid` (/proc/<pid>/stat fields 14, 15)"""
    try:
        with open("/proc/%d/stat" % pid) as f:
            st = f.read()
        fields = st[st.rindex(")") + 2:].split()
        return (int(fields[11]) + int(fields[12])) / _TICK
    except (OSError, ValueError, IndexError):
        return None


def main():
    """The parent only forks: a child handles the remaining requests and reports one line per request through a
    pipe; if it dies (SIGSEGV in a compiled extension, os._exit, ...) or stays silent for longer than the wall
    limit, the first unanswered request is reported as "crash"/"timeout" and a new child takes the rest.
    The parent also watches the CPU time of the child (/proc/<pid>/stat): the child's own interval timer only fires
    between bytecodes, so a single C-level call that does not return (a regular expression that backtracks
    exponentially, a huge integer power) cannot be interrupted from inside; when the request being worked on has used
    its CPU limit plus a grace period the child is killed and the request is reported as "timeout"."""
    import select
    reqs = [json.loads(ln) for ln in sys.stdin if ln.strip()]
    i = 0
    while i < len(reqs):
        rfd, wfd = os.pipe()
        pid = os.fork()
        if pid == 0:
            os.close(rfd)
            try:
                _child(reqs[i:], wfd)
            finally:
                os._exit(3)
        os.close(wfd)
        buf = b""
        done = 0
        killed = None
        cpu0 = _cpu_of(pid) or 0.0
        last = time.time()
        while True:
            ready, _, _ = select.select([rfd], [], [], 0.25)
            if not ready:
                cur = reqs[i + done] if i + done < len(reqs) else {}
                lim = float(cur.get("cpu_limit") or CPU_LIMIT)
                used = _cpu_of(pid)
                if used is not None and used - cpu0 > lim + max(1.0, 0.5 * lim):
                    os.kill(pid, signal.SIGKILL)
                    killed = "no result after %.1fs CPU (limit %.1fs) inside one uninterruptible call; worker killed" % (used - cpu0, lim)
                    kcpu = used - cpu0
                    break
                if time.time() - last > WALL_LIMIT + 15:
                    os.kill(pid, signal.SIGKILL)
                    killed = "no answer within %.0fs wall; worker killed" % (WALL_LIMIT + 15)
                    kcpu = WALL_LIMIT
                    break
                continue
            chunk = os.read(rfd, 1 << 16)
            if not chunk:
                break
            buf += chunk
            while b"\n" in buf:
                line, buf = buf.split(b"\n", 1)
                _proto.write(line.decode("utf8") + "\n")
                done += 1
                cpu0 = _cpu_of(pid) or cpu0
                last = time.time()
        os.close(rfd)
        _pid, status = os.waitpid(pid, 0)
        i += done
        if i < len(reqs):
            if killed:
                r = {"id": reqs[i]["id"], "outcome": "timeout", "exc": killed, "cpu": round(kcpu, 3), "outlen": 0, "dispatches": 0}
            elif os.WIFSIGNALED(status):
                sig = os.WTERMSIG(status)
                try:
                    name = signal.Signals(sig).name
                except ValueError:
                    name = "signal %d" % sig
                r = {"id": reqs[i]["id"], "outcome": "crash", "exc": "%s: interpreter killed by %s" % (name, name), "cpu": 0, "outlen": 0}
            else:
                r = {"id": reqs[i]["id"], "outcome": "crash", "exc": "exit: interpreter exited with status %d" % os.WEXITSTATUS(status),
                     "cpu": 0, "outlen": 0}
            _proto.write(json.dumps(r) + "\n")
            i += 1
    _proto.flush()


if __name__ == "__main__":
    main()
