"""C18: bounded exhaustive check, ON THE MODEL, of the restart bisimulation that is not proved in Coq
(ocaml/c16/bisim.ml; `driver.exe bisim <d1> <d2> <maxjobs> <k> <n>`), sharded over start states."""
import concurrent.futures
import json
import subprocess


def run_bisim(exe, d1, d2, maxjobs=3, shards=16, timeout=1500):
    def one(k):
        p = subprocess.run([exe, "bisim", str(d1), str(d2), str(maxjobs), str(k), str(shards)], capture_output=True, text=True, timeout=timeout)
        lines = [ln for ln in p.stdout.splitlines() if ln.strip()]
        info = json.loads(lines[-1]) if lines and lines[-1].startswith("{") else {"mismatches": -1, "error": (p.stdout + p.stderr)[-500:]}
        info["rc"] = p.returncode
        info["examples"] = [ln for ln in lines if ln.startswith("MISMATCH")][:5]
        return info

    with concurrent.futures.ThreadPoolExecutor(shards) as ex:
        parts = list(ex.map(one, range(shards)))
    tot = {"d1": d1, "d2": d2, "maxjobs": maxjobs, "shards": shards,
           "start_states": sum(p.get("start_states", 0) for p in parts),
           "steps_compared": sum(p.get("steps_compared", 0) for p in parts),
           "distinct_pairs": sum(p.get("distinct_pairs", 0) for p in parts),
           "stats_only_differences": sum(p.get("stats_only_differences", 0) for p in parts),
           "mismatches": sum(max(0, p.get("mismatches", 0)) for p in parts),
           "failed_shards": [k for k, p in enumerate(parts) if p["rc"] != 0 or p.get("mismatches", -1) < 0],
           "examples": [e for p in parts for e in p["examples"]][:5]}
    tot["ok"] = tot["mismatches"] == 0 and not tot["failed_shards"]
    return tot
