"""Drives the real parser / advtree / TreeCleaner of the snapshot on wikitext documents.

  python -m vt.harness.c05_impl run <pass_time_limit_s>      stdin: JSON lines {"id", "text"[, "pre": [texts cleaned first]]}   stdout: JSON lines
  python -m vt.harness.c05_impl shrink <pass_time_limit_s>   stdin: JSON lines {"text", "key"}  stdout: JSON lines {"text", "evals"}

For every document: parse, build_advanced_tree, snapshot; then every cleaner pass called DIRECTLY
(getattr(tc, name)(tree), in cleaner_methods order, an exception is recorded and the run goes on like the
catch-all would), snapshot after each pass; then, on a fresh parse, TreeCleaner.clean_all() with reports,
snapshot before/after.  Snapshots are heap text for the extracted model (see c05_snap)."""
import io
import json
import logging
import os
import signal
import sys
import time
import warnings

warnings.simplefilter("ignore")
logging.disable(logging.CRITICAL)

from mwlib.parser.refine.uparser import parse_string  # noqa: E402
from mwlib.parser import advtree  # noqa: E402
from mwlib.parser.treecleaner import TreeCleaner  # noqa: E402
from mwlib.parser.dummydb import DummyDB  # noqa: E402

from vt.harness import c05_snap as S  # noqa: E402

OUT = os.fdopen(os.dup(1), "w")
DEVNULL = open(os.devnull, "w")
sys.stdout = DEVNULL
sys.stderr = DEVNULL
os.dup2(DEVNULL.fileno(), 1)
os.dup2(DEVNULL.fileno(), 2)


class TimeLimit(BaseException):
    pass


_BUDGET = {"t0": 0.0, "limit": 0.0}


def _alarm(_sig, _frm):
    """ITIMER_VIRTUAL is tick-sampled: on an overcommitted (virtual) machine it can fire long before the process has really
    used that much CPU.  The verdict is taken on the precise per-process CPU clock (CLOCK_PROCESS_CPUTIME_ID): if the budget
    is not used up yet, re-arm for the remainder instead of raising."""
    used = time.process_time() - _BUDGET["t0"]
    if used < _BUDGET["limit"]:
        signal.setitimer(signal.ITIMER_VIRTUAL, max(0.05, _BUDGET["limit"] - used), 0.2)
        return
    raise TimeLimit()


signal.signal(signal.SIGVTALRM, _alarm)   # CPU time of this process: independent of machine load


RECURSION_HEADROOM = 1000    # CPython's default recursion limit


def _stack_depth():
    f = sys._getframe()
    n = 0
    while f is not None:
        n += 1
        f = f.f_back
    return n


def limited(fun, limit):
    """run fun() under a CPU-time limit; returns (result, exc_or_None, seconds).  fun() always gets the same number of
    interpreter frames (CPython's default limit) no matter how deep the harness itself is when it calls it: a document
    nested close to the limit behaves the same in the exploration, the shrinker and the replay."""
    t0 = time.time()
    old_limit = sys.getrecursionlimit()
    sys.setrecursionlimit(RECURSION_HEADROOM + _stack_depth())
    _BUDGET["t0"] = time.process_time()
    _BUDGET["limit"] = limit
    signal.setitimer(signal.ITIMER_VIRTUAL, limit, 0.2)
    try:
        try:
            r = fun()
            signal.setitimer(signal.ITIMER_VIRTUAL, 0)
            return r, None, time.time() - t0
        finally:
            signal.setitimer(signal.ITIMER_VIRTUAL, 0)
            sys.setrecursionlimit(old_limit)
    except TimeLimit as e:
        return None, e, time.time() - t0
    except RecursionError as e:
        return None, e, time.time() - t0
    except Exception as e:
        return None, e, time.time() - t0


def exc_key(e):
    if isinstance(e, TimeLimit):
        return "TIMEOUT"
    msg = str(e)
    # keep the part of the message that names the missing attribute / the reason, drop addresses and reprs
    import re
    msg = re.sub(r"0x[0-9a-f]+", "0x", msg)
    msg = re.sub(r"element .* not found", "element not found", msg, flags=re.S)
    return "%s: %s" % (type(e).__name__, msg[:80])


class Page:
    def __init__(self, rawtext):
        self.rawtext = rawtext


TEMPLATES = {"t1": '<div class="noprint">{{{1}}}</div>', "t2": "{|\n|-\n| {{{1}}}\n| {{{2|}}}\n|}", "t3": "'''{{{1}}}'''",
             "t4": '<span style="overflow:auto;height:300px">{{{1}}}</span>', "t5": "{{t3|{{{1}}}}}<ref>{{{1}}}</ref>"}


class DB(DummyDB):
    """DummyDB (English siteinfo) plus a handful of templates"""

    def normalize_and_get_page(self, title, defaultns=0):
        key = title.split(":")[-1].strip().lower().replace(" ", "_")
        return Page(TEMPLATES.get(key, ""))


WIKIDB = DB()


def parse(text):
    tree = parse_string(title="t", raw=text, wikidb=WIKIDB)
    advtree.build_advanced_tree(tree)
    return tree


def quick_fingerprint(root, cap=400000):
    """hash of everything a snapshot depends on; None when the walk does not end (cycle / node listed very often)"""
    acc = []
    add = acc.append
    stack = [root]
    pop = stack.pop
    n = 0
    while stack:
        node = pop()
        n += 1
        if n > cap:
            return None
        ch = node.children
        add(id(node))
        add(id(node.parent))
        add(id(node.__class__))
        add(len(ch))
        add(node.caption)
        add(getattr(node, "target", None))
        stack.extend(ch)
    try:
        return hash(tuple(acc))
    except TypeError:
        return None


def analyse(text, limit, full=True):
    """Returns a dict with the snapshots and the pass outcomes; `keys` = the failure keys according to
    the untrusted Python reading (used for shrinking)."""
    res = {"status": "ok", "snaps": [], "passes": [], "keys": []}
    wd = {}
    tree, e, dt = limited(lambda: parse(text), max(limit, 20))
    if e is not None:
        res["status"] = "parse-timeout" if isinstance(e, TimeLimit) else "parse-error"
        res["detail"] = exc_key(e)
        return res
    keys = []
    wf_broken = False
    last_line = None
    passwords = []

    inv = {}

    def wdinv(i):
        if i not in inv:
            inv.update((v, k) for k, v in wd.items())
        return inv[i]

    last_fp = [None, None]

    def snap(label):
        """snapshot + checks, skipped when nothing a snapshot records (identity, parent link, child list, class, caption,
        target of any reachable node) changed since the previous one"""
        nonlocal last_line, wf_broken
        f = quick_fingerprint(tree)
        if f is not None and f == last_fp[0]:
            return last_fp[1]
        s = S.Snap(tree, wd)
        last_fp[0], last_fp[1] = f, s
        line = s.line()
        if s.cycle:
            res.setdefault("cycle", []).append(label)
        if line != last_line:
            res["snaps"].append([label, line, S.digest(s.root, s.cells, s.cycle)])
        if line != last_line and not wf_broken:
            why = "cycle" if s.cycle else S.py_wf(s.root, s.cells)
            if why:
                wf_broken = True
                keys.append(["wf", label])
                res["py_wf"] = [label, why]
            else:
                cnt = {}
                for x in S.py_cwords(s.root, s.cells):
                    cnt[wdinv(x[0])] = cnt.get(wdinv(x[0]), 0) + 1
                passwords.append((label.split(":")[-1], cnt))
        last_line = line
        return s

    s0 = snap("build")
    tc = TreeCleaner(tree, save_reports=False)
    stop = False
    for k, name in enumerate(tc.cleaner_methods):
        meth = getattr(tc, name)
        _r, e, dt = limited(lambda: meth(tree), limit)
        ek = None
        if e is not None:
            ek = exc_key(e)
            if isinstance(e, TimeLimit):
                keys.append(["timeout", name])
                stop = True
            else:
                keys.append(["exc", name, type(e).__name__])
        if ek is not None or dt > 1.0:
            res["passes"].append([k, name, ek, round(dt, 4)])
        res["npasses"] = k + 1
        res["maxdt"] = max(res.get("maxdt", 0), round(dt, 4))
        if stop:
            break
        s_last = snap("%d:%s" % (k, name))
    if not stop and not wf_broken:
        why = S.py_contract(s_last.root, s_last.cells)
        if why:
            d = {c[0]: c for c in s_last.cells}
            res["py_contract"] = why
    # ---- a pass raised: the production path is TreeCleaner.clean([...]), whose catch-all swallows the exception and
    # goes on with the next pass - the tree it hands on must still be proper.  Same passes, fresh tree, through clean().
    if not stop and any(p[2] is not None for p in res["passes"]):
        wd3 = {}
        tree3, e, dt = limited(lambda: parse(text), max(limit, 20))
        if e is None:
            tc3 = TreeCleaner(tree3, save_reports=False)
            res["snaps_ca"] = []
            last3 = None
            fp3 = None
            broken3 = False
            for k, name in enumerate(tc3.cleaner_methods):
                _r, e, dt = limited(lambda: tc3.clean([name]), limit)
                if e is not None:
                    break
                f3 = quick_fingerprint(tree3)
                if f3 is not None and f3 == fp3:
                    continue
                fp3 = f3
                s3 = S.Snap(tree3, wd3)
                line3 = s3.line()
                if line3 != last3:
                    lab3 = "catchall:%d:%s" % (k, name)
                    if s3.cycle:
                        res.setdefault("cycle_ca", []).append(lab3)
                    res["snaps_ca"].append([lab3, line3, S.digest(s3.root, s3.cells, s3.cycle)])
                    if not broken3 and (s3.cycle or S.py_wf(s3.root, s3.cells)):
                        broken3 = True
                        if not wf_broken:
                            keys.append(["wf", lab3])
                last3 = line3
    # ---- the catch-all path, fresh tree
    if full and not stop:
        wd2 = {}
        tree2, e, dt = limited(lambda: parse(text), max(limit, 20))
        if e is None:
            b = S.Snap(tree2, wd2)
            tc2 = TreeCleaner(tree2, save_reports=True)
            _r, e, dt = limited(lambda: tc2.clean_all(), limit * 10)
            if e is not None:
                keys.append(["clean_all", exc_key(e)])
                res["clean_all"] = {"exc": exc_key(e)}
            else:
                errs = [m for (who, m) in tc2.get_reports() if who == "clean" and m.startswith("'ERROR:'")]
                a = S.Snap(tree2, wd2)
                res["clean_all"] = {"errors": errs[:5], "before": b.line(), "after": a.line(), "dt": round(dt, 4),
                                    "pv_before": S.digest(b.root, b.cells, b.cycle), "pv_after": S.digest(a.root, a.cells, a.cycle)}
                if errs:
                    keys.append(["report-error"])
                okb = not b.cycle and S.py_wf(b.root, b.cells) is None
                oka = not a.cycle and S.py_wf(a.root, a.cells) is None
                if okb and oka:
                    cwb = S.py_cwords(b.root, b.cells)
                    cwa = S.py_cwords(a.root, a.cells)
                    c7 = S.c07_compare(cwb, S.py_tables(b.root, b.cells), cwa, S.py_columns(b.root, b.cells), S.py_columns(a.root, a.cells))
                    if c7:
                        res["py_c07"] = list(c7)
                        if c7[0] in ("word-lost", "word-duplicated"):
                            inv2 = {v: k for k, v in wd2.items()}
                            cb, ca_ = {}, {}
                            for x in cwb:
                                cb[x[0]] = cb.get(x[0], 0) + 1
                            for x in cwa:
                                ca_[x[0]] = ca_.get(x[0], 0) + 1
                            seen = set()
                            for x in cwb:
                                if cb.get(x[0], 0) == ca_.get(x[0], 0):
                                    continue
                                word = inv2[x[0]]
                                at = "?"
                                for lab, cnt in passwords:
                                    if cnt.get(word, 0) != cb[x[0]]:
                                        at = lab
                                        break
                                wh = "in a reference" if x[3] else ("in a table" if x[4] else ("in a list" if x[2] else "in running text"))
                                k7 = ["c07", c7[0], wh, at]
                                if tuple(k7) not in seen:
                                    seen.add(tuple(k7))
                                    keys.append(k7)
                        else:
                            keys.append(["c07", c7[0]])
                    pc = S.py_contract(a.root, a.cells)
                    if pc:
                        d = {c[0]: c for c in a.cells}
                        import re
                        m = re.match(r"edge (\d+)\(cls (\d+)\) -> (\d+)\(cls (\d+)\)", pc)
                        keys.append(["contract", int(m.group(2)), int(m.group(4))] if m else ["contract", 0, 0])
                        res["py_contract"] = pc
                elif not oka and not wf_broken:
                    keys.append(["wf", "clean_all"])
    res["keys"] = keys
    return res


def ddmin(text, key, limit, max_evals=250):
    evals = [0]
    if key[0] == "timeout":
        max_evals = 60          # every reproducing evaluation burns the whole CPU-time limit

    import re
    empty_section = re.compile(r"(?m)^=+[^\n]*=+[ \t]*\n(?:[ \t]*\n)*(?==|\Z)")

    def bad(t):
        if evals[0] >= max_evals:
            return False
        if key[0] == "c07" and empty_section.search(t if t.endswith("\n") else t + "\n"):
            return False          # an empty section is a documented removal trigger: outside C07's quantifier
        evals[0] += 1
        try:
            r = analyse(t, limit, full=key[0] not in ("wf", "exc", "timeout") or key[1] == "clean_all")
        except BaseException:
            return False
        return key in r.get("keys", [])

    def reduce(units, join):
        n = 2
        while len(units) >= 2 and evals[0] < max_evals:
            chunk = max(1, len(units) // n)
            reduced = False
            i = 0
            while i < len(units):
                cand = units[:i] + units[i + chunk:]
                if cand and bad(join(cand)):
                    units = cand
                    n = max(n - 1, 2)
                    reduced = True
                else:
                    i += chunk
            if not reduced:
                if chunk == 1:
                    break
                n = min(len(units), n * 2)
        return units

    if not bad(text):
        return text, evals[0], False
    lines = reduce(text.split("\n"), "\n".join)
    text = "\n".join(lines)
    if key[0] == "c07":
        toks = reduce(text.replace("\n", " \n ").split(" "), lambda u: " ".join(u).replace(" \n ", "\n"))
        text = " ".join(toks).replace(" \n ", "\n")
    elif len(text) <= 400 and key[0] != "timeout":
        chars = reduce(list(text), "".join)
        text = "".join(chars)
    else:
        import re
        rx = r"(<[^<>]*>|\[\[[^\[\]]*\]\]|\s+)" if key[0] == "timeout" else r"(<[^<>]*>|\s+)"
        toks = reduce([t for t in re.split(rx, text) if t], "".join)
        text = "".join(toks)
    return text, evals[0], True


def main():
    mode = sys.argv[1]
    limit = float(sys.argv[2])
    for line in sys.stdin:
        line = line.strip()
        if not line:
            continue
        job = json.loads(line)
        if mode == "run":
            for pre in job.get("pre", []):       # documents cleaned earlier in the same process (state that leaks between articles)
                try:
                    analyse(pre, limit, full=True)
                except BaseException:
                    pass
            try:
                r = analyse(job["text"], limit, full=job.get("full", True))
            except BaseException as e:  # harness problem
                r = {"status": "harness-error", "detail": "%s: %s" % (type(e).__name__, e)}
            r["id"] = job["id"]
            OUT.write(json.dumps(r) + "\n")
        else:
            t, n, ok = ddmin(job["text"], job["key"], limit)
            OUT.write(json.dumps({"text": t, "evals": n, "reproduced": ok}) + "\n")
        OUT.flush()


if __name__ == "__main__":
    main()
