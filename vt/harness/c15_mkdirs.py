"""Runs the real os.makedirs (the interpreter's own, as called by nuwiki.extract_member) inside a
fresh sandbox directory and reports which directories it created.
stdin: JSON lines {"id", "dirs": [relative dirs that exist beforehand], "path": name passed to
os.makedirs, "$ROOT" = absolute path of the sandbox root}; argv[1] = sandbox base.
stdout: JSON lines {"id", "root", "existing", "path", "created", "mkdir_calls", "outcome"}."""
import json
import os
import shutil
import sys

base = os.path.realpath(sys.argv[1])


def dirs_of(root):
    res = set()
    for d, dirs, _files in os.walk(root):
        for x in dirs:
            res.add(os.path.relpath(os.path.join(d, x), root))
    return res


def run_case(case):
    top = os.path.join(base, "mk")
    shutil.rmtree(top, ignore_errors=True)
    root = os.path.join(top, "r")
    os.makedirs(root)
    for d in case["dirs"]:
        os.makedirs(os.path.join(root, d), exist_ok=True)
    os.chdir(root)
    path = case["path"].replace("$ROOT", root)
    before = dirs_of(top)
    calls = []
    real_mkdir = os.mkdir

    def rec_mkdir(p, *a, **k):
        calls.append(p)
        return real_mkdir(p, *a, **k)

    os.mkdir = rec_mkdir
    outcome = "DONE"
    try:
        os.makedirs(path)
    except FileExistsError:
        outcome = "EXISTS"
    except OSError as e:
        outcome = "OSERROR"
    finally:
        os.mkdir = real_mkdir
        os.chdir(base)
    after = dirs_of(top)
    # paths relative to `top`: everything the call may legitimately touch starts with "r/"
    return {"id": case["id"], "root": root, "path": path,
            "existing": sorted(os.path.relpath(os.path.join(top, x), root) for x in before if x != "r" and x.startswith("r/")),
            "created": sorted(after - before), "removed": sorted(before - after),
            "mkdir_calls": calls, "outcome": outcome}


for line in sys.stdin:
    line = line.strip()
    if not line:
        continue
    case = json.loads(line)
    try:
        res = run_case(case)
    except Exception as e:  # harness problem
        res = {"id": case["id"], "harness_error": "%s: %s" % (type(e).__name__, e)}
    sys.stdout.write(json.dumps(res) + "\n")
sys.stdout.flush()
shutil.rmtree(os.path.join(base, "mk"), ignore_errors=True)
