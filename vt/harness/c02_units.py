"""C02 unit-level drivers: the REAL ParseSections / ParseLines passes on abstract token lists.
stdin JSON lines {"id","k":"S","items":[[1,level,c]|[0,x],...]} | {"id","k":"L","lines":[[prefix, w] | [prefix, w, word after a colon],...]}
| {"id","k":"C","toks":[kind,...]}: the REAL TableParser.find_caption on the children of a table given as token kinds
(text blank nl break bar open close ref row quote colon cap); out = the children afterwards, tokens named by their index in `toks`,
a caption node as ["cap", [indices of its children]]"""
import json
import logging
import sys
import warnings

warnings.simplefilter("ignore")
logging.disable(logging.CRITICAL)
from mwlib.parser import expander  # noqa: E402,F401
from mwlib.parser.refine import core  # noqa: E402

T = core.Token
from mwlib.parser.refine import parse_table  # noqa: E402


def mk_tok(kind, uid):
    if kind == "text":
        return T(type=T.t_text, text="w%d" % uid, uid=uid)
    if kind == "blank":
        return T(type=T.t_text, text=" ", uid=uid)
    if kind == "nl":
        return T(type=T.t_newline, text="\n", uid=uid)
    if kind == "break":
        return T(type=T.t_break, text="\n\n", uid=uid)
    if kind == "bar":
        return T(type=T.t_special, text="|", uid=uid)
    if kind == "colon":
        return T(type=T.t_special, text=":", uid=uid)
    if kind == "open":
        return T(type=T.t_2box_open, text="[[", uid=uid)
    if kind == "close":
        return T(type=T.t_2box_close, text="]]", uid=uid)
    if kind == "quote":
        return T(type=T.t_singlequote, text="''", uid=uid)
    if kind == "ref":
        return T(type=T.t_complex_tag, tagname="ref", children=[], uid=uid)
    if kind == "row":
        return T(type=T.t_complex_table_row, tagname="tr", children=[], uid=uid)
    if kind == "cap":
        return T(type=T.t_tablecaption, text="|+", uid=uid)
    raise ValueError(kind)


def sec_sx(tok):
    if tok.type == T.t_complex_section:
        cap = tok.children[0].children
        c = int(cap[0].text[1:])
        kids = list(tok.children[1].children) + list(tok.children[2:])
        return "(1 %d %d%s)" % (tok.level, c, "".join(" " + sec_sx(k) for k in kids))
    return "(0 %d)" % int(tok.text[1:])


def line_tree(tok):
    if tok.type == T.t_text:
        return [["L", int(tok.text[1:]), False, False]]
    if tok.type == T.t_newline:
        return []
    kids = []
    for ch in tok.children or []:
        kids.extend(line_tree(ch))
    if tok.type == T.t_complex_tag and tok.tagname in ("ul", "ol", "li"):
        return [["N", [tok.tagname], kids]]
    if tok.type == T.t_complex_style and tok.caption == ":":
        return [["N", ["dd"], kids]]
    if tok.type == T.t_complex_style and tok.caption == ";":
        return [["N", ["dt"], kids]]
    return kids


for line in sys.stdin:
    c = json.loads(line)
    r = {"id": c["id"]}
    try:
        if c["k"] == "S":
            toks = []
            for it in c["items"]:
                if it[0] == 1:
                    toks += [T(type=T.t_section, text="=" * it[1]), T(type=T.t_text, text="c%d" % it[2]), T(type=T.t_section_end, text="=" * it[1])]
                else:
                    toks.append(T(type=T.t_text, text="b%d" % it[1]))
            core.ParseSections(toks, None)
            r["out"] = " ".join(sec_sx(t) for t in toks)
        elif c["k"] == "C":
            kids = [mk_tok(kd, j) for j, kd in enumerate(c["toks"])]
            table = T(type=T.t_complex_table, tagname="table", children=kids)
            tp = object.__new__(parse_table.TableParser)
            tp.xopts = None
            tp.tokens = [table]
            tp.find_caption(table)
            r["out"] = [["cap", [k.uid for k in t.children]] if t.type == T.t_complex_caption else t.uid for t in table.children]
        else:
            toks = []
            for ln in c["lines"]:
                toks += [T(type=T.t_item, text=ln[0]), T(type=T.t_text, text="w%d" % ln[1])]
                if len(ln) > 2:           # a top-level colon followed by more text
                    toks += [T(type=T.t_special, text=":"), T(type=T.t_text, text="w%d" % ln[2])]
                toks.append(T(type=T.t_newline, text="\n"))
            core.ParseLines(toks, None)
            out = []
            for t in toks:
                out.extend(line_tree(t))
            r["out"] = out
    except Exception as e:  # noqa: BLE001
        r["exc"] = "%s: %s" % (type(e).__name__, e)
    sys.stdout.write(json.dumps(r) + "\n")
