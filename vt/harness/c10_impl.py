"""C10 harness: runs the REAL scanner (mwlib.parser.token.utoken.scan of the snapshot, i.e. the
recompiled _uscan.cc) on a shard of inputs, applies the tiling oracle to every output and writes
the token lists in the line format of ocaml/c10/driver.ml.

usage: python -m vt.harness.c10_impl SPEC.json
SPEC = {"mode": "enum", "alphabet": [[cp,..],..], "depth": d, "lo": i, "hi": j,      # all index tuples in [lo,hi) base len(alphabet)
        "inp": path, "out": path, "flags": path, "hits": path}
     | {"mode": "file", "inp": path (exists: one text per line, space separated code points), "out":.., "flags":.., "hits":..}
Files written: inp (enum mode), out (one line per text: "type,start,len;..."), flags (one char per text:
'1' non-trivial, '0' trivial), hits (JSON lines, oracle violations with a minimised text)."""
import json
import sys

from mwlib.parser.token.utoken import scan  # the snapshot's (PYTHONPATH set by core.run_impl)

EBAD = "\uebad"


def tiling_violation(text, toks):
    """The property's own oracle (independent of the Coq model).  None = fine, else a description.
    tokens are non-empty, in order, inside [0, end) where end = first NUL or len(text); every
    character of [0,end) outside all spans is U+EBAD."""
    n = text.find("\0")
    end = len(text) if n < 0 else n
    pos = 0
    for k, t in enumerate(toks):
        if len(t) != 3:
            return "token %d is not a (type,start,len) triple" % k
        _ty, st, ln = t
        if ln <= 0:
            return "token %d is empty (len %d)" % (k, ln)
        if st < pos:
            return "token %d starts at %d before the end %d of its predecessor (overlap / out of order)" % (k, st, pos)
        if st + ln > end:
            return "token %d [%d,%d) extends beyond the end of the text %d" % (k, st, st + ln, end)
        for i in range(pos, st):
            if text[i] != EBAD:
                return "character %d (U+%04X) before token %d is not covered by any token" % (i, ord(text[i]), k)
        pos = st + ln
    for i in range(pos, end):
        if text[i] != EBAD:
            return "character %d (U+%04X) after the last token is not covered" % (i, ord(text[i]))
    return None


def kind(msg):
    """coarse class of a violation, stable under minimisation"""
    for k in ("empty", "overlap", "beyond", "before token", "after the last", "triple"):
        if k in msg:
            return k
    return "other"


def minimise(text):
    """greedy delta debugging on characters: keep any violation of the oracle"""
    def bad(t):
        try:
            return tiling_violation(t, scan(t)) is not None
        except Exception:
            return True
    cur = text
    chunk = max(1, len(cur) // 2)
    while True:
        i = 0
        changed = False
        while i < len(cur):
            cand = cur[:i] + cur[i + chunk:]
            if bad(cand):
                cur = cand
                changed = True
            else:
                i += chunk
        if chunk > 1:
            chunk //= 2
        elif not changed:
            break
    return cur


def texts_of(spec):
    if spec["mode"] == "enum":
        alpha = ["".join(map(chr, cps)) for cps in spec["alphabet"]]
        n = len(alpha)
        d = spec["depth"]
        for idx in range(spec["lo"], spec["hi"]):
            parts = []
            x = idx
            for _ in range(d):
                parts.append(alpha[x % n])
                x //= n
            parts.reverse()
            yield "".join(parts)
    else:
        with open(spec["inp"]) as f:
            for line in f:
                yield "".join(chr(int(x)) for x in line.split())


def main():
    spec = json.load(open(sys.argv[1]))
    write_inp = spec["mode"] == "enum"
    finp = open(spec["inp"], "w") if write_inp else None
    fout = open(spec["out"], "w")
    fflags = open(spec["flags"], "w")
    hits = []
    nhit = 0
    hist = {}
    maxlen = 0
    for text in texts_of(spec):
        if len(text) > maxlen:
            maxlen = len(text)
        if write_inp:
            finp.write(" ".join([str(ord(c)) for c in text]))
            finp.write("\n")
        try:
            toks = scan(text)
            line = ";".join(["%d,%d,%d" % t for t in toks])
            msg = tiling_violation(text, toks)
        except Exception as e:      # the property also requires scan to return
            toks = None
            line = "EXC " + type(e).__name__
            msg = "scan raised %s: %s" % (type(e).__name__, e)
        fout.write(line)
        fout.write("\n")
        nt = len(toks) if toks is not None else -1
        hist[nt] = hist.get(nt, 0) + 1
        fflags.write("1" if (toks is not None and (len(toks) >= 2 or EBAD in text or "\0" in text)) else "0")
        if msg is not None:
            nhit += 1
            if len(hits) < 5:
                small = minimise(text) if toks is not None else text
                try:
                    stoks = scan(small)
                    smsg = tiling_violation(small, stoks)
                except Exception as e:
                    stoks, smsg = None, "scan raised %s" % type(e).__name__
                hits.append({"text": [ord(c) for c in text], "what": msg, "kind": kind(msg),
                             "min_text": [ord(c) for c in small], "min_tokens": stoks, "min_what": smsg})
    if finp:
        finp.close()
    fout.close()
    fflags.close()
    with open(spec["hits"], "w") as f:
        for h in hits:
            f.write(json.dumps(h) + "\n")
        f.write(json.dumps({"total_violations": nhit, "token_count_hist": hist, "text_length_max": maxlen}) + "\n")
    print("done")


if __name__ == "__main__":
    main()
