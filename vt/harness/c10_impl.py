"""C10 harness: runs the REAL scanner (mwlib.parser.token.utoken.scan of the snapshot, i.e. the
recompiled _uscan.cc) on a shard of inputs, applies the tiling oracle to every output and writes
the token lists in the line format of ocaml/c10/driver.ml.

usage: python -m vt.harness.c10_impl SPEC.json
SPEC = {"mode": "enum", "alphabet": [[cp,..],..], "depth": d, "lo": i, "hi": j,      # all index tuples in [lo,hi) base len(alphabet)
        "inp": path, "out": path, "flags": path, "hits": path}
     | {"mode": "file", "inp": path (exists: one text per line, space separated code points), "out":.., "flags":.., "hits":..}
     | {"mode": "long", "cases": [[[unit code points, n], ...], ...], ...}   # LONG-LEXEME family: a text is the concatenation of
                                                                            # segments, segment = (unit repeated)[:n]; inp is written
Texts longer than LONG (4096) are minimised on their run-length form (segments) and reported as "min_rle"/"text_rle"
instead of a list of code points.
Files written: inp (enum mode), out (one line per text: "type,start,len;..."), flags (one char per text:
'1' non-trivial, '0' trivial), hits (JSON lines, oracle violations with a minimised text)."""
import json
import sys

from mwlib.parser.token.utoken import scan  # the snapshot's (PYTHONPATH set by core.run_impl)

EBAD = "\uebad"


def tiling_violation(text, toks):
    """The property's own oracle (independent of the Coq model).  None = fine, else a description.
    tokens are non-empty, in order, inside [0, end) where end = first NUL or len(text); every
    character of [0,end) outside all spans is U+EBAD."""
    n = text.find("\0")
    end = len(text) if n < 0 else n
    pos = 0
    for k, t in enumerate(toks):
        if len(t) != 3:
            return "token %d is not a (type,start,len) triple" % k
        _ty, st, ln = t
        if ln <= 0:
            return "token %d is empty (len %d)" % (k, ln)
        if st < pos:
            return "token %d starts at %d before the end %d of its predecessor (overlap / out of order)" % (k, st, pos)
        if st + ln > end:
            return "token %d [%d,%d) extends beyond the end of the text %d" % (k, st, st + ln, end)
        for i in range(pos, st):
            if text[i] != EBAD:
                return "character %d (U+%04X) before token %d is not covered by any token" % (i, ord(text[i]), k)
        pos = st + ln
    for i in range(pos, end):
        if text[i] != EBAD:
            return "character %d (U+%04X) after the last token is not covered" % (i, ord(text[i]))
    return None


def kind(msg):
    """coarse class of a violation, stable under minimisation"""
    for k in ("empty", "overlap", "beyond", "before token", "after the last", "triple"):
        if k in msg:
            return k
    return "other"


def minimise(text):
    """greedy delta debugging on characters: keep any violation of the oracle"""
    def bad(t):
        try:
            return tiling_violation(t, scan(t)) is not None
        except Exception:
            return True
    cur = text
    chunk = max(1, len(cur) // 2)
    while True:
        i = 0
        changed = False
        while i < len(cur):
            cand = cur[:i] + cur[i + chunk:]
            if bad(cand):
                cur = cand
                changed = True
            else:
                i += chunk
        if chunk > 1:
            chunk //= 2
        elif not changed:
            break
    return cur


LONG = 4096


def seg_text(segs):
    """segments [[unit, n], ...] -> text; a segment is (unit repeated)[:n]"""
    parts = []
    for unit, n in segs:
        if n <= 0 or not unit:
            continue
        q, r = divmod(n, len(unit))
        parts.append(unit * q + unit[:r])
    return "".join(parts)


def rle(text):
    """maximal runs of one character: [[c, n], ...]"""
    segs = []
    for c in text:
        if segs and segs[-1][0] == c:
            segs[-1][1] += 1
        else:
            segs.append([c, 1])
    return segs


def bad_text(t):
    try:
        return tiling_violation(t, scan(t)) is not None
    except Exception:
        return True


def minimise_long(segs, budget=1500):
    """minimiser for very long texts, on the segment form: (1) drop whole segments, (2) replace a multi-character
    unit by its first character, (3) per segment, bisect the repeat count down to a boundary n with bad(n) and
    not bad(n-1); repeat to a fixpoint; (4) when the text got short, finish with the character-level minimiser.
    Every candidate is judged by the tiling oracle on the real scan() output.  Returns segments."""
    calls = [0]

    def bad(sg):
        calls[0] += 1
        return bad_text(seg_text(sg))
    cur = [[u, n] for u, n in segs if n > 0 and u]
    for _round in range(4):
        changed = False
        i = 0
        while i < len(cur) and calls[0] < budget:           # (1)
            cand = cur[:i] + cur[i + 1:]
            if bad(cand):
                cur = cand
                changed = True
            else:
                i += 1
        for i in range(len(cur)):                           # (2)
            u, n = cur[i]
            if len(u) > 1 and calls[0] < budget:
                cand = cur[:i] + [[u[0], n]] + cur[i + 1:]
                if bad(cand):
                    cur = cand
                    changed = True
        for i in range(len(cur)):                           # (3)
            u, n = cur[i]
            if n <= 1 or calls[0] >= budget:
                continue
            lo, hi = 0, n                                   # invariant: bad at hi; lo is a count known not to be bad (0: see (1))
            if bad(cur[:i] + [[u, 1]] + cur[i + 1:]):
                hi = 1
            else:
                lo = 1
                while hi - lo > 1 and calls[0] < budget:
                    mid = (lo + hi) // 2
                    if bad(cur[:i] + [[u, mid]] + cur[i + 1:]):
                        hi = mid
                    else:
                        lo = mid
            if hi != n:
                cur[i] = [u, hi]
                changed = True
        if not changed:
            break
    t = seg_text(cur)
    if len(t) <= LONG:
        return rle(minimise(t))
    return cur


def segs_json(segs):
    return [[[ord(c) for c in u], n] for u, n in segs]


def coarse_segs(text, budget=600):
    """segment form of an arbitrary long text: delta debugging with large chunks only (bounded number of scans), then
    runs of one character; a text that still has too many runs becomes one segment"""
    cur = text
    chunk = max(1, len(cur) // 2)
    calls = 0
    while chunk >= max(1, len(text) // 256) and calls < budget:
        i = 0
        while i < len(cur) and calls < budget:
            cand = cur[:i] + cur[i + chunk:]
            calls += 1
            if bad_text(cand):
                cur = cand
            else:
                i += chunk
        chunk //= 2
    segs = rle(cur)
    return segs if len(segs) <= 200 else [[cur, len(cur)]]


def texts_of(spec):
    """yields (text, segments or None)"""
    if spec["mode"] == "long":
        for case in spec["cases"]:
            segs = [["".join(map(chr, u)), n] for u, n in case]
            yield seg_text(segs), segs
    else:
        for t in plain_texts_of(spec):
            yield t, None


def plain_texts_of(spec):
    if spec["mode"] == "enum":
        alpha = ["".join(map(chr, cps)) for cps in spec["alphabet"]]
        n = len(alpha)
        d = spec["depth"]
        for idx in range(spec["lo"], spec["hi"]):
            parts = []
            x = idx
            for _ in range(d):
                parts.append(alpha[x % n])
                x //= n
            parts.reverse()
            yield "".join(parts)
    else:
        with open(spec["inp"]) as f:
            for line in f:
                yield "".join(chr(int(x)) for x in line.split())


def main():
    spec = json.load(open(sys.argv[1]))
    write_inp = spec["mode"] in ("enum", "long")
    finp = open(spec["inp"], "w") if write_inp else None
    fout = open(spec["out"], "w")
    fflags = open(spec["flags"], "w")
    hits = []
    nhit = 0
    hist = {}
    maxlen = 0
    for text, segs in texts_of(spec):
        if len(text) > maxlen:
            maxlen = len(text)
        if write_inp:
            finp.write(" ".join([str(ord(c)) for c in text]))
            finp.write("\n")
        try:
            toks = scan(text)
            line = ";".join(["%d,%d,%d" % t for t in toks])
            msg = tiling_violation(text, toks)
        except Exception as e:      # the property also requires scan to return
            toks = None
            line = "EXC " + type(e).__name__
            msg = "scan raised %s: %s" % (type(e).__name__, e)
        fout.write(line)
        fout.write("\n")
        nt = len(toks) if toks is not None else -1
        hist[nt] = hist.get(nt, 0) + 1
        fflags.write("1" if (toks is not None and (len(toks) >= 2 or EBAD in text or "\0" in text)) else "0")
        if msg is not None:
            nhit += 1
            if len(hits) < 5:
                if len(text) > LONG:
                    if segs is None:
                        segs = coarse_segs(text)
                    msegs = minimise_long(segs)
                    small = seg_text(msegs)
                else:
                    small = minimise(text) if toks is not None else text
                try:
                    stoks = scan(small)
                    smsg = tiling_violation(small, stoks)
                except Exception as e:
                    stoks, smsg = None, "scan raised %s" % type(e).__name__
                h = {"what": msg, "kind": kind(msg), "min_kind": kind(smsg) if smsg else None, "min_tokens": stoks[:8] if stoks else stoks, "min_what": smsg}
                if len(text) > LONG:
                    if seg_text(segs) != text:      # coarse_segs already shrank it
                        segs = [[text, len(text)]]
                    h["text_rle"] = segs_json(segs)
                    h["text"] = None
                else:
                    h["text"] = [ord(c) for c in text]
                if len(small) > LONG:
                    h["min_rle"] = segs_json(msegs)
                    h["min_text"] = None
                else:
                    h["min_text"] = [ord(c) for c in small]
                hits.append(h)
    if finp:
        finp.close()
    fout.close()
    fflags.close()
    with open(spec["hits"], "w") as f:
        for h in hits:
            f.write(json.dumps(h) + "\n")
        f.write(json.dumps({"total_violations": nhit, "token_count_hist": hist, "text_length_max": maxlen}) + "\n")
    print("done")


if __name__ == "__main__":
    main()
