"""C02 driver of the real code: parse_string + build_advanced_tree, then the canonical structural tree
(structural nodes only, bold/italic as leaf attributes).  stdin: JSON lines {"id","raw","lang"}; stdout JSON lines
{"id","tree"} or {"id","exc"}.

Default mode: the documents of the input are parsed one after the other IN THIS PROCESS (documents of different site languages
interleaved), as a render server does; what the property says about a document does not depend on what was parsed before.
Mode `iso` (argv[1]): every input line is handled by a forked child of a parent that has never parsed anything, i.e. in the state of
a fresh process; a case may carry "pre": [{"raw","lang"}, ...], documents the child parses (in order) before the document itself -
this is how a history-dependent mismatch is minimised and replayed."""
import json
import logging
import os
import re
import sys
import traceback
import warnings

warnings.simplefilter("ignore")
logging.disable(logging.CRITICAL)

from mwlib.parser import expander  # noqa: E402,F401
from mwlib.parser import advtree, nodes  # noqa: E402
from mwlib.parser.refine import uparser  # noqa: E402

try:
    import qs.log
    qs.log.root_logger.disabled = True
except Exception:
    pass


def label(node):
    """structural label of a node of the advanced tree, or None (transparent), or ("style", bold, italic)"""
    c = node.__class__
    if c is nodes.Section or isinstance(node, nodes.Section):
        return ["sec", node.level]
    if isinstance(node, nodes.Paragraph):
        return ["p"]
    if isinstance(node, nodes.ItemList):
        return ["ol"] if getattr(node, "numbered", False) else ["ul"]
    if isinstance(node, nodes.Item):
        return ["li"]
    if isinstance(node, advtree.DefinitionTerm):
        return ["dt"]
    if isinstance(node, advtree.DefinitionDescription):
        return ["dd"]
    if isinstance(node, nodes.Table):
        return ["table"]
    if isinstance(node, nodes.Caption):
        return ["caption"]
    if isinstance(node, nodes.Row):
        return ["row"]
    if isinstance(node, nodes.Cell):
        return ["cell", bool(getattr(node, "is_header", False))]
    if isinstance(node, nodes.PreFormatted):
        return ["pre"]
    if isinstance(node, advtree.Reference):
        return ["ref"]
    if isinstance(node, nodes.NamedURL):
        return ["ext", node.caption]
    if isinstance(node, nodes.URL):
        return ["url", node.caption]
    if isinstance(node, nodes.Link):
        if node.__class__ is nodes.ArticleLink:
            return ["link", node.target]
        # every other kind of link: its kind and the fully qualified target (namespace name of the site language) are part of the label
        return ["link", node.target, LINK_KINDS.get(node.__class__, node.__class__.__name__), getattr(node, "full_target", None) or ""]
    return None


LINK_KINDS = {nodes.ImageLink: "image", nodes.CategoryLink: "category", nodes.NamespaceLink: "ns", nodes.LangLink: "lang",
              nodes.InterwikiLink: "interwiki"}


_pids = {}
PIECES = re.compile(r"\w+|[^\w\s]")


def nearest_paragraph(node):
    p = getattr(node, "parent", None)
    while p is not None:
        if isinstance(p, nodes.Paragraph):
            return _pids.setdefault(id(p), len(_pids))
        p = getattr(p, "parent", None)
    return None


def canon(node, bold, italic, heading_of=None):
    if isinstance(node, nodes.Text) and node.__class__ in (nodes.Text,):
        cap = node.caption or ""
        pid = nearest_paragraph(node)
        # leaves = maximal alphanumeric runs and single punctuation characters: the leaf sequence does not depend on how
        # the parser happens to chop the text into Text nodes ("2:1" is 2 : 1 whether it is one node or three)
        return [["L", w, bold, italic, pid] for w in PIECES.findall(cap)]
    if isinstance(node, advtree.Strong):
        bold = True
    elif isinstance(node, (advtree.Emphasized, advtree.Italic)):
        italic = True
    out = []
    lab = label(node)
    kids = list(node.children or [])
    for i, ch in enumerate(kids):
        sub = canon(ch, bold, italic)
        if lab and lab[0] == "sec" and i == 0:
            sub = [["N", ["heading"], sub]] if sub else []      # first child of a Section groups the heading text
        out.extend(sub)
    if lab is None:
        return out
    if lab[0] == "link" and not kids:
        return [["N", lab, [["L", node.target, bold, italic, nearest_paragraph(node)]]]]
    if lab[0] == "url":
        return [["N", lab, [["L", node.caption, bold, italic, nearest_paragraph(node)]]]]
    if not out:
        return []
    return [["N", lab, out]]


def one(c):
    try:
        for h in c.get("pre") or []:
            try:
                advtree.build_advanced_tree(uparser.parse_string(title="t", raw=h["raw"], wikidb=None, lang=h["lang"]))
            except Exception:  # noqa: BLE001  (an earlier document that fails is reported when it is the document under test)
                pass
        art = uparser.parse_string(title="t", raw=c["raw"], wikidb=None, lang=c["lang"])
        advtree.build_advanced_tree(art)
        tree = []
        _pids.clear()
        for ch in art.children:
            tree.extend(canon(ch, False, False))
        return {"id": c["id"], "tree": tree}
    except Exception as e:
        return {"id": c["id"], "exc": "%s: %s" % (type(e).__name__, str(e)[:200]), "tb": traceback.format_exc()[-1500:]}


def main():
    iso = len(sys.argv) > 1 and sys.argv[1] == "iso"
    for line in sys.stdin:
        c = json.loads(line)
        if iso:
            sys.stdout.flush()
            pid = os.fork()
            if pid == 0:
                sys.stdout.write(json.dumps(one(c)) + "\n")
                sys.stdout.flush()
                os._exit(0)
            os.waitpid(pid, 0)
            continue
        sys.stdout.write(json.dumps(one(c)) + "\n")
        sys.stdout.flush()


if __name__ == "__main__":
    main()
