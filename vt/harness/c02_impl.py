"""C02 driver of the real code: parse_string + build_advanced_tree, then the canonical structural tree
(structural nodes only, bold/italic as leaf attributes).  stdin: JSON lines {"id","raw","lang"}; stdout JSON lines
{"id","tree"} or {"id","exc"}."""
import json
import logging
import re
import sys
import traceback
import warnings

warnings.simplefilter("ignore")
logging.disable(logging.CRITICAL)

from mwlib.parser import expander  # noqa: E402,F401
from mwlib.parser import advtree, nodes  # noqa: E402
from mwlib.parser.refine import uparser  # noqa: E402

try:
    import qs.log
    qs.log.root_logger.disabled = True
except Exception:
    pass


def label(node):
    """structural label of a node of the advanced tree, or None (transparent), or ("style", bold, italic)"""
    c = node.__class__
    if c is nodes.Section or isinstance(node, nodes.Section):
        return ["sec", node.level]
    if isinstance(node, nodes.Paragraph):
        return ["p"]
    if isinstance(node, nodes.ItemList):
        return ["ol"] if getattr(node, "numbered", False) else ["ul"]
    if isinstance(node, nodes.Item):
        return ["li"]
    if isinstance(node, advtree.DefinitionTerm):
        return ["dt"]
    if isinstance(node, advtree.DefinitionDescription):
        return ["dd"]
    if isinstance(node, nodes.Table):
        return ["table"]
    if isinstance(node, nodes.Row):
        return ["row"]
    if isinstance(node, nodes.Cell):
        return ["cell", bool(getattr(node, "is_header", False))]
    if isinstance(node, nodes.PreFormatted):
        return ["pre"]
    if isinstance(node, advtree.Reference):
        return ["ref"]
    if isinstance(node, nodes.NamedURL):
        return ["ext", node.caption]
    if isinstance(node, nodes.URL):
        return ["url", node.caption]
    if isinstance(node, nodes.Link):
        return ["link", node.target]
    return None


_pids = {}
PIECES = re.compile(r"\w+|[^\w\s]")


def nearest_paragraph(node):
    p = getattr(node, "parent", None)
    while p is not None:
        if isinstance(p, nodes.Paragraph):
            return _pids.setdefault(id(p), len(_pids))
        p = getattr(p, "parent", None)
    return None


def canon(node, bold, italic, heading_of=None):
    if isinstance(node, nodes.Text) and node.__class__ in (nodes.Text,):
        cap = node.caption or ""
        pid = nearest_paragraph(node)
        # leaves = maximal alphanumeric runs and single punctuation characters: the leaf sequence does not depend on how
        # the parser happens to chop the text into Text nodes ("2:1" is 2 : 1 whether it is one node or three)
        return [["L", w, bold, italic, pid] for w in PIECES.findall(cap)]
    if isinstance(node, advtree.Strong):
        bold = True
    elif isinstance(node, (advtree.Emphasized, advtree.Italic)):
        italic = True
    out = []
    lab = label(node)
    kids = list(node.children or [])
    for i, ch in enumerate(kids):
        sub = canon(ch, bold, italic)
        if lab and lab[0] == "sec" and i == 0:
            sub = [["N", ["heading"], sub]] if sub else []      # first child of a Section groups the heading text
        out.extend(sub)
    if lab is None:
        return out
    if lab[0] == "link" and not kids:
        return [["N", lab, [["L", node.target, bold, italic, nearest_paragraph(node)]]]]
    if lab[0] == "url":
        return [["N", lab, [["L", node.caption, bold, italic, nearest_paragraph(node)]]]]
    if not out:
        return []
    return [["N", lab, out]]


def main():
    for line in sys.stdin:
        c = json.loads(line)
        try:
            art = uparser.parse_string(title="t", raw=c["raw"], wikidb=None, lang=c["lang"])
            advtree.build_advanced_tree(art)
            tree = []
            _pids.clear()
            for ch in art.children:
                tree.extend(canon(ch, False, False))
            r = {"id": c["id"], "tree": tree}
        except Exception as e:
            r = {"id": c["id"], "exc": "%s: %s" % (type(e).__name__, str(e)[:200]), "tb": traceback.format_exc()[-1500:]}
        sys.stdout.write(json.dumps(r) + "\n")
        sys.stdout.flush()


if __name__ == "__main__":
    main()
