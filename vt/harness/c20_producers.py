"""C20 producers: each sub-command runs ONE producer of the snapshot's mwlib (PYTHONPATH) so that the
files it publishes land in the work directory D (argv[3]).  The process is meant to be run under
`strace -f` by vt/props/c20.py (fault-free, with an injected ENOSPC/EIO, or with an injected SIGKILL).

    python -m vt.harness.c20_producers <producer> <scenario> <D> <IN>

D   work directory (exists; may already contain old versions of the published files / stale temps)
IN  read-only inputs prepared by the orchestrator (tiny nuwiki directory, bytes to serve, ...)

<scenario> is `name` or `name@N`: N = payload size of the published file (download: bytes served; render: bytes the
writer produces; zip/makezip: size of every member of IN/nuwiki@N; status: length of the article name, i.e. the JSON
grows beyond one io buffer).  The sizes are chosen by vt/props/c20.py so that they are NOT multiples of the download
chunk / the io buffer: then the tail of the payload sits in the user-space buffer of the file object until close().

    python -m vt.harness.c20_producers params - - -      prints the chunk / buffer sizes of the snapshot as JSON

`%flags` appended to a scenario (`create%rel+xdev`, `ok@1500%dot+xdev`) selects the ENVIRONMENT of the run - how the
output path is spelled and where $TMPDIR lives are inputs of every producer that accepts an output path:
    rel   the output paths are BARE file names (no directory part), the current directory is D
    dot   the output paths are `./name`, the current directory is D
    xdev  $TMPDIR is a directory on ANOTHER file system than D (set up by vt/props/c20.py; EXDEV emulated by the
          LD_PRELOAD shim when the machine has no second writable file system)
    tmp   $TMPDIR is a fresh directory on the same file system as D
Without flags: absolute output paths, $TMPDIR untouched.  xdev/tmp are set up by the orchestrator (process
environment); rel/dot are applied here, right before the producer is called.

SHORT WRITES: with C20_FSIZE=<n> in the environment the producer runs under a file-size limit of n bytes
(resource.RLIMIT_FSIZE, soft limit, SIGXFSZ ignored), switched on right before the producer is called (`enter`): the
kernel then stores only the bytes that still fit below n and returns that SHORT COUNT from write(2); a write starting at
the limit fails with EFBIG.  This is what an almost full disk / an exhausted quota does (there: ENOSPC/EDQUOT).  Nothing
of mwlib or of the os module is patched.  Byte code caching is off in such a run (a truncated .pyc must not reach the
snapshot shared with other runs).

Nothing in here writes below D except through the mwlib code under test (the dummy `writer` of the
render producer writes to the temp path render.py hands it - that is the writer's contract).
With C20_RECORD=<dir> (never under strace) a copy of every published file is taken after each publish
step: these are the `complete versions` the reader oracle compares against.
"""
import json
import logging
import os
import shutil
import sys
import warnings

warnings.simplefilter("ignore")
logging.disable(logging.CRITICAL)

FSIZE = os.environ.get("C20_FSIZE")
if FSIZE is not None:
    sys.dont_write_bytecode = True

RECORD = os.environ.get("C20_RECORD")
_rec_n = [0]
FINALS = {
    "status": ["status.json"],
    "zip": ["coll.zip"],
    "makezip": ["coll.zip", "status.json"],
    "download": ["img.png"],
    "render": ["out.pdf", "status.json"],
}


ENV_FLAGS = ("rel", "dot", "xdev", "tmp")
_flags = set()


def scenario_flags(scenario):
    """'create@9%rel+xdev' -> {'rel', 'xdev'}"""
    if "%" not in scenario:
        return set()
    fl = set(scenario.split("%", 1)[1].split("+"))
    if not fl <= set(ENV_FLAGS) or ("rel" in fl and "dot" in fl) or ("xdev" in fl and "tmp" in fl):
        raise ValueError("bad environment flags in scenario %r" % scenario)
    return fl


def base_scenario(scenario):
    return scenario.split("%", 1)[0]


def enter(D):
    """rel/dot: from here on the producer runs with the work directory as its current directory; C20_FSIZE: from here on
    no file of this process grows beyond that many bytes (short write, then EFBIG)"""
    if _flags & {"rel", "dot"}:
        os.chdir(D)
    if FSIZE is not None and not RECORD:
        import resource
        import signal
        signal.signal(signal.SIGXFSZ, signal.SIG_IGN)
        _soft, hard = resource.getrlimit(resource.RLIMIT_FSIZE)
        resource.setrlimit(resource.RLIMIT_FSIZE, (int(FSIZE), hard))


def outpath(D, name):
    """how the caller of the producer spells the output path"""
    if "rel" in _flags:
        return name
    if "dot" in _flags:
        return os.path.join(".", name)
    return os.path.join(D, name)


def split_scenario(scenario):
    """'ok@1500' -> ('ok', 1500) ; 'ok' -> ('ok', None) ; environment flags are dropped"""
    scenario = base_scenario(scenario)
    if "@" in scenario:
        name, n = scenario.split("@", 1)
        return name, int(n)
    return scenario, None


def sized(data, n):
    """first n bytes of data (repeated if shorter); None = all of it"""
    if n is None:
        return data
    if n > len(data):
        data = data * (n // max(1, len(data)) + 1)
    return data[:n]


def checkpoint(D, producer):
    """record mode only: copy the current published files (if any) to RECORD/<name>.<n>"""
    if not RECORD:
        return
    _rec_n[0] += 1
    for fn in FINALS[producer]:
        p = os.path.join(D, fn)
        if os.path.exists(p):
            shutil.copyfile(p, os.path.join(RECORD, "%s.%03d" % (fn, _rec_n[0])))


def silence_qs():
    try:
        import qs.log
        qs.log.root_logger.disabled = True
    except Exception:
        pass


def record_status_dumps(D, producer):
    """record mode only: checkpoint after every Status.dump (the status file is re-published often)"""
    if not RECORD:
        return
    from mwlib.utils import status as status_mod
    real = status_mod.Status.dump

    def dump(self):
        try:
            return real(self)
        finally:
            checkpoint(D, producer)
    status_mod.Status.dump = dump


# --------------------------------------------------------------------------- status (status.py:94-127)

def run_status(scenario, D, IN):
    from mwlib.utils.status import Status
    scenario, size = split_scenario(scenario)
    big = ("Gamma \u00e4\u00f6 " * (size // 9 + 1))[:size] if size else ""     # non-ASCII: bytes != characters
    record_status_dumps(D, "status")
    Status.stdout = None                       # progress line on stdout is not a published file
    enter(D)
    if scenario == "nodir":                    # FileNotFoundError branch of dump (status.py:123)
        fn = outpath(D, os.path.join("missing-dir", "status.json"))
    else:
        fn = outpath(D, "status.json")

    class Pod:                                 # podclient path of Status.__call__: no file involved
        def post_status(self, **kw):
            pass
    st = Status(filename=fn, podclient=Pod() if scenario == "pod" else None, progress_range=(0, 100))
    st(status="init", progress=0)
    st(status="fetching", progress=30, article="Alpha")
    sub = st.get_sub_range(30, 90)             # shares filename and status dict
    sub(progress=50, article="Beta äö" + big)
    if size:
        sub(progress=70, article="Delta")      # a shorter payload after a longer one (the temp name is re-truncated)
    st(status="finished", progress=100, article="", content_type="application/pdf", file_extension="pdf")
    if scenario == "nodump":
        st(status="late", auto_dump=False)


# --------------------------------------------------------------------------- zip (buildzip.py:197-219, 242-287)

def run_zip(scenario, D, IN):
    from mwlib.apps import buildzip
    silence_qs()
    enter(D)
    out = outpath(D, "coll.zip")
    scenario, size = split_scenario(scenario)
    res = buildzip.ZipCreator.create_zip(os.path.join(IN, "nuwiki" if size is None else "nuwiki@%d" % size), out)
    assert res == out
    checkpoint(D, "zip")


def run_makezip(scenario, D, IN):
    from mwlib.apps import buildzip
    from mwlib.utils.status import Status
    silence_qs()
    record_status_dumps(D, "makezip")
    Status.stdout = None
    enter(D)
    out = outpath(D, "coll.zip")
    scenario, size = split_scenario(scenario)

    def fake_make_nuwiki(fsdir, metabook=None, wiki_options=None, pod_client=None, status=None):
        # make_nuwiki needs the network; the publish step under test only needs a nuwiki directory
        # (written with plain open/write like mwlib's fsoutput does, not sendfile)
        srcdir = os.path.join(IN, "nuwiki" if size is None else "nuwiki@%d" % size)
        for d, _dirs, files in os.walk(srcdir):
            os.makedirs(os.path.join(fsdir, os.path.relpath(d, srcdir)), exist_ok=True)
            for fn in files:
                with open(os.path.join(d, fn), "rb") as f:
                    data = f.read()
                dst = os.path.join(fsdir, os.path.relpath(d, srcdir), fn)
                with open(dst, "wb") as f:
                    f.write(data)
                os.utime(dst, (1600000000, 1600000000))      # zip members carry the mtime: keep runs comparable
    buildzip.make_nuwiki = fake_make_nuwiki

    class Pod:
        def post_status(self, **kw):
            pass

        def post_zipfile(self, filename):
            checkpoint(D, "makezip")
            if scenario == "postfail":
                raise RuntimeError("upload failed")
    status = Status(outpath(D, "status.json"))
    pod = Pod() if scenario in ("pod", "postfail") else None
    try:
        res = buildzip.make_zip(output=out, wiki_options={"output": out}, metabook=None, pod_client=pod, status=status)
        assert res == out
    except RuntimeError:
        if scenario != "postfail":
            raise
    checkpoint(D, "makezip")


# --------------------------------------------------------------------------- download (transport.py:65-73, 109-126)

def run_download(scenario, D, IN):
    import httpx
    from mwlib.network import fetch
    silence_qs()
    scenario, size = split_scenario(scenario)
    data = sized(open(os.path.join(IN, "served.bin"), "rb").read(), size)
    calls = [0]

    class Body(httpx.SyncByteStream):
        def __init__(self, fail_after=None):
            self.fail_after = fail_after

        def __iter__(self):
            n = 0
            for i in range(0, len(data), 5000):        # server-side chunking differs from iter_bytes(16384)
                if self.fail_after is not None and n >= self.fail_after:
                    raise httpx.ReadError("connection reset by stub")
                n += 1
                yield data[i:i + 5000]

    def handler(request):
        calls[0] += 1
        if scenario == "retry429" and calls[0] == 1:
            return httpx.Response(429, content=b"slow down")
        if scenario == "midfail":
            return httpx.Response(200, stream=Body(fail_after=5))
        if scenario == "http500":
            return httpx.Response(500, content=b"oops")
        return httpx.Response(200, stream=Body())
    client = httpx.Client(transport=httpx.MockTransport(handler))   # lowest layer stubbed: no socket
    fetch._get_download_client = lambda url: client
    enter(D)
    path = outpath(D, "img.png")
    temp_path = (path + "\xb7").encode("utf-8")                     # as fetch.py:874
    try:
        fetch.download_to_file("http://stub.invalid/img.png", path, temp_path, max_retries=2, initial_delay=0)
    except (httpx.HTTPError, OSError):
        pass                                                        # callers see the exception; files are what matters
    checkpoint(D, "download")


# --------------------------------------------------------------------------- render (render.py:249-256)

def run_render(scenario, D, IN):
    from mwlib.apps import render
    from mwlib.utils.status import Status
    from mwlib.utils.mwlib_exceptions import RenderException
    silence_qs()
    record_status_dumps(D, "render")
    Status.stdout = None
    scenario, size = split_scenario(scenario)
    body = open(os.path.join(IN, "rendered.bin"), "rb").read()
    if size is not None:                            # keep header and trailer: the reader parses the document
        body = body[:9] + sized(body[9:-7], max(0, size - 16)) + body[-7:]
    enter(D)
    out = outpath(D, "out.pdf")
    status_file = outpath(D, "status.json")

    def writer(env, output=None, status_callback=None, **kw):
        # a writer writes the document to the path it is given (render.py hands it `tmpout`)
        with open(output, "wb") as f:
            for i in range(0, len(body), 7000):
                f.write(body[i:i + 7000])
                if status_callback:
                    status_callback(status="rendering", progress=100 * i // len(body))
                if scenario == "writerfail" and i >= 14000:
                    raise RuntimeError("writer crashed")
    writer.content_type = "application/pdf"
    writer.file_extension = "pdf"

    class Images:
        def clear(self):
            pass

    class Wiki:
        siteinfo = {"general": {"lang": "en"}}

    class Env:
        wiki = Wiki()
        images = Images()
        metabook = None
    render.get_writer_from_options = lambda options: (writer, {})
    render.init_tmp_cleaner = lambda: None          # forks a janitor for tempfile.tempdir: unrelated to `output`
    render.get_environment = lambda options: (Env(), Status(status_file, progress_range=(0, 100)), None)
    kw = dict(output=out, posturl=None, getposturl=0, keep_tmpfiles=False, status_file=status_file, config=None,
              imagesize=1280, metabook=None, collectionpage=None, noimages=False, logfile=None, username=None,
              password=None, domain=None, title=None, subtitle=None, editor=None, script_extension=".php",
              writer="dummy", writer_options=None, list_writers=False, writer_info=None, keep_zip=None, language=None,
              args=())
    root = logging.getLogger()
    try:
        render.main.callback(**kw)
    except (RenderException, OSError):
        pass
    finally:
        for h in list(root.handlers):              # setup_console_logging adds a handler; keep stderr quiet
            root.removeHandler(h)
    checkpoint(D, "render")


PRODUCERS = {"status": run_status, "zip": run_zip, "makezip": run_makezip, "download": run_download, "render": run_render}

def params():
    """sizes that decide where user-space buffered bytes exist: the download chunk size of the snapshot's transport
    module and the buffer size io.open() picks for a file in the scratch file system"""
    import inspect
    import io
    res = {"io_default": io.DEFAULT_BUFFER_SIZE, "chunk": None}
    try:
        from mwlib.network import transport
        d = inspect.signature(transport.stream_download_to_temp).parameters["chunk_size"].default
        if isinstance(d, int) and d > 0:
            res["chunk"] = d
    except Exception as e:
        res["chunk_error"] = "%s: %s" % (type(e).__name__, e)
    return res


if __name__ == "__main__":
    producer, scenario, D, IN = sys.argv[1:5]
    if producer == "params":
        sys.stdout.write(json.dumps(params()) + "\n")
        sys.exit(0)
    _flags.update(scenario_flags(scenario))
    try:
        PRODUCERS[producer](scenario, D, IN)
    except OSError as e:                      # injected faults surface as OSError: the exit code tells the orchestrator
        sys.stderr.write("producer raised OSError: %s\n" % e)
        sys.exit(3)
    sys.stdout.write("DONE\n")
