"""C20: parse an `strace -f -y -xx` log of a producer and abstract it to ops of coq/C20/FsTrace.v.

Everything the abstraction cannot express faithfully becomes the op `X` (Unsupported), which the
recogniser rejects (fail closed).  Only paths inside the work directory D are tracked; syscalls that
touch neither a tracked path nor a tracked descriptor are dropped (python start-up, stdout, inputs).
"""
import os
import re

TRACE_SET = ("openat,open,creat,write,writev,pwrite64,pwritev,pwritev2,lseek,ftruncate,truncate,close,close_range,"
             "rename,renameat,renameat2,unlink,unlinkat,mkdir,mkdirat,rmdir,link,linkat,symlink,symlinkat,"
             "fsync,fdatasync,dup,dup2,dup3,fcntl,sendfile,copy_file_range,fallocate,mmap,splice,"
             "clone,clone3,fork,vfork,chdir,fchdir")
# syscalls that take a path WITHOUT a directory descriptor: with a relative path (producer run with a bare output
# name, cwd = work directory) the line mentions no tracked directory at all, so they are never skipped by the
# needle filter of parse_log
PLAIN_PATH_CALLS = frozenset(("rename", "unlink", "mkdir", "rmdir", "open", "creat", "link", "symlink", "truncate",
                              "chdir", "fchdir"))
CWD_RE = re.compile(r"AT_FDCWD<([^>]*)>")

LINE_RE = re.compile(r"^(\d+)\s+(.*)$")
CALL_RE = re.compile(r"^([a-z_0-9]+)\((.*)$", re.S)


class ParseError(Exception):
    pass


def split_args(s):
    """split the argument text of a syscall (up to the matching ')') at top-level commas.
    Returns (args, rest_after_paren)."""
    args, cur, depth, i, n = [], [], 0, 0, len(s)
    while i < n:
        c = s[i]
        if c == '"':
            j = s.find('"', i + 1)
            while j > 0 and s[j - 1] == "\\" and not s[:j].endswith("\\\\"):
                j = s.find('"', j + 1)           # escaped quote (does not occur with -xx)
            if j < 0:
                raise ParseError("unterminated string")
            cur.append(s[i:j + 1])
            i = j + 1
            continue
        if s.startswith("=>", i):
            cur.append("=>")
            i += 2
            continue
        if c in "([{<":
            depth += 1
        elif c in ")]}>":
            if c == ")" and depth == 0:
                a = "".join(cur).strip()
                if a or args:
                    args.append(a)
                return args, s[i + 1:]
            depth -= 1
        elif c == "," and depth == 0:
            args.append("".join(cur).strip())
            cur = []
            i += 1
            continue
        cur.append(c)
        i += 1
    raise ParseError("unterminated call: " + s[:120])


_ESC = {"n": 10, "t": 9, "r": 13, "v": 11, "f": 12, "\\": 92, '"': 34, "a": 7, "b": 8, "e": 27}


def cstr(tok):
    """decode a C string literal printed by strace ("..." optionally followed by '...') -> bytes"""
    if not tok.startswith('"'):
        raise ParseError("not a string: " + tok[:60])
    end = tok.rindex('"')
    if tok[end + 1:].strip() == "...":
        raise ParseError("truncated string (raise -s)")
    body = tok[1:end]
    try:
        return bytes.fromhex(body.replace("\\x", ""))     # -xx: only \xNN sequences
    except ValueError:
        pass
    out = bytearray()
    i, n = 0, len(body)
    while i < n:
        c = body[i]
        if c != "\\":
            out += c.encode("utf8")
            i += 1
            continue
        d = body[i + 1]
        if d == "x":
            out.append(int(body[i + 2:i + 4], 16))
            i += 4
        elif d in "01234567":
            j = i + 1
            while j < n and j < i + 4 and body[j] in "01234567":
                j += 1
            out.append(int(body[i + 1:j], 8))
            i = j
        else:
            out.append(_ESC[d])
            i += 2
    return bytes(out)


def annot(tok):
    """'3</a/b>' -> (3, '/a/b') ; 'AT_FDCWD</cwd>' -> (None, '/cwd') ; '5' -> (5, None)"""
    m = re.match(r"^(AT_FDCWD|-?\d+)(?:<(.*)>(?:\(deleted\))?)?$", tok, re.S)
    if not m:
        raise ParseError("bad fd token: " + tok[:80])
    fd = None if m.group(1) == "AT_FDCWD" else int(m.group(1))
    p = m.group(2)
    if p is not None:
        p = cstr('"' + p + '"').decode("utf8", "surrogateescape")
    return fd, p


NAME_RE = re.compile(r"^(\d+)\s+([a-z_0-9]+)\(")


def hex_needle(D):
    return "".join("\\x%02x" % b for b in D.encode("utf8"))


def parse_log(text, needles=None):
    """-> (events, killed, pids): events = list of dict(pid, name, args, ret, err, injected, unfinished).
    Lines that contain none of `needles` (the work directory, plain and \\x-escaped: with -y every syscall on a
    tracked path or descriptor mentions it) are only counted: dict(pid, name, skip=True)."""
    events, killed, pids = [], None, []
    for raw in text.split("\n"):
        if needles is not None and not any(nd in raw for nd in needles):
            m = NAME_RE.match(raw)
            if m and m.group(2) not in PLAIN_PATH_CALLS:
                pid = int(m.group(1))
                if pid not in pids:
                    pids.append(pid)
                ev = {"pid": pid, "name": m.group(2), "skip": True, "unfinished": False, "injected": False}
                cm = CWD_RE.search(raw)
                if cm:
                    ev["cwd"] = cm.group(1)          # -y annotation: the current directory at that moment
                events.append(ev)
                continue
        if not raw.strip():
            continue
        m = LINE_RE.match(raw)
        if not m:
            raise ParseError("no pid: " + raw[:120])
        pid, rest = int(m.group(1)), m.group(2)
        if pid not in pids:
            pids.append(pid)
        if rest.startswith("+++"):
            if "killed by" in rest:
                killed = rest
            continue
        if rest.startswith("---"):        # signal delivery
            continue
        if rest.startswith("<..."):
            for e in reversed(events):           # the call this line completes
                if e["pid"] == pid and e.get("open_call"):
                    e["resumed"] = True
                    break
            events.append({"pid": pid, "name": "?interleaved", "args": [], "ret": None, "err": None, "injected": False,
                           "unfinished": True, "raw": rest[:200]})
            continue
        if "<unfinished ...>" in rest:
            # either completed later by a `<... resumed>` line (interleaving: unsupported), or - sendfile and other calls
            # with in/out arguments - the call during which the process was killed (never executed)
            cm = CALL_RE.match(rest)
            events.append({"pid": pid, "name": cm.group(1) if cm else "?interleaved", "args": [], "ret": None, "err": None,
                           "injected": False, "unfinished": True, "open_call": bool(cm), "resumed": False,
                           "raw": rest[:200]})
            continue
        cm = CALL_RE.match(rest)
        if not cm:
            raise ParseError("not a call: " + rest[:120])
        name = cm.group(1)
        args, tail = split_args(cm.group(2))
        tm = re.match(r"^\s*=\s*(\?|-?\d+|0x[0-9a-f]+)(<[^>]*>)?\s*(E[A-Z0-9]+)?(.*)$", tail, re.S)
        if not tm:
            raise ParseError("no result: " + rest[:80] + " ... " + tail[:80])
        r = tm.group(1)
        ev = {"pid": pid, "name": name, "args": args, "injected": "(INJECTED)" in tm.group(4), "unfinished": r == "?",
              "err": tm.group(3), "ret": None if r == "?" else (int(r, 16) if r.startswith("0x") else int(r))}
        events.append(ev)
    return events, killed, pids


def parse_flags(tok):
    fl = set(tok.split("|"))
    mode = "rw" if "O_RDWR" in fl else ("w" if "O_WRONLY" in fl else "r")
    return mode, fl


class Abstraction:
    """Turns the events of the main pid into model ops.  `finals`: absolute paths published by the producer
    (ids 0..m-1); every other path below D gets the next free id on first sight."""

    def __init__(self, D, finals, roots=()):
        self.D = D.rstrip("/")
        # tracked directories: the work directory and (when the orchestrator redirects $TMPDIR) the temp directory,
        # possibly on another file system
        self.roots = [self.D] + [r.rstrip("/") for r in roots if r]
        self.ids = {}
        for p in finals:
            self.ids[p] = len(self.ids)
        self.fdtab = {}          # tracked fds of the main pid -> path at open time
        self.ops = []            # protocol lines of ocaml/c20/driver.ml
        self.relevant = []       # (event index, syscall name, ordinal among same-name syscalls of the main pid)
        self.unsupported = []
        self.dirs = set()
        self.cwd = None

    def tracked(self, p):
        return p is not None and any(p == r or p.startswith(r + "/") for r in self.roots)

    def pid_(self, p):
        if p not in self.ids:
            self.ids[p] = len(self.ids)
        return self.ids[p]

    def resolve(self, dirtok, pathtok):
        _fd, base = annot(dirtok) if dirtok is not None else (None, self.cwd)
        p = cstr(pathtok).decode("utf8", "surrogateescape")
        if not p.startswith("/"):
            if base is None:
                raise ParseError("relative path without base: " + p)
            p = base + "/" + p
        return os.path.normpath(p)

    def X(self, why):
        self.ops.append("X")
        self.unsupported.append(why)

    def is_dir_of_tracked(self, p):
        pre = p + "/"
        return any(q.startswith(pre) for q in self.ids)

    def feed(self, events, main_pid):
        counts = {}
        for idx, ev in enumerate(events):
            name = ev["name"]
            if ev["pid"] != main_pid:
                # another process: the model is single-process.  Only harmless if it touches nothing tracked.
                if not ev.get("skip"):
                    self.X("second process touches the work directory: %s" % name)
                continue
            counts[name] = counts.get(name, 0) + 1
            if ev.get("skip"):
                if ev.get("cwd") is not None:
                    try:
                        self.cwd = cstr('"' + ev["cwd"] + '"').decode("utf8", "surrogateescape")
                    except Exception:
                        self.cwd = None
                continue
            n_before = len(self.ops)
            if ev["unfinished"] and (name == "?interleaved" or ev.get("open_call")):
                if ev.get("open_call") and not ev["resumed"] and not any(
                        e2["pid"] == main_pid and not e2.get("skip") for e2 in events[idx + 1:]):
                    # last line of the process, never completed: the syscall the SIGKILL aborted
                    self.relevant.append((idx, name, counts[name]))
                    continue
                self.X("interleaved syscall lines")
                continue
            self.one(ev)
            if len(self.ops) > n_before or ev.get("_relevant"):
                self.relevant.append((idx, name, counts[name]))
                if ev["unfinished"]:
                    # the syscall during which the process was killed: not executed (kernel aborts it)
                    del self.ops[n_before:]

    def one(self, ev):
        name, a, ret = ev["name"], ev["args"], ev["ret"]
        ok = "1" if (ret is not None and ret >= 0) else "0"
        if name in ("chdir", "fchdir"):
            # relative paths of rename()/unlink()/mkdir() are resolved against the current directory
            if ok == "1":
                try:
                    self.cwd = self.resolve(None, a[0]) if name == "chdir" else annot(a[0])[1]
                except ParseError:
                    self.cwd = None              # unknown: a later relative path fails closed (ParseError)
            return
        if name in ("openat", "unlinkat", "mkdirat", "renameat", "renameat2") and a and a[0].startswith("AT_FDCWD<"):
            self.cwd = annot(a[0])[1]
        if name in ("openat", "open", "creat"):
            if name == "openat":
                p = self.resolve(a[0], a[1])
                flags = a[2]
            elif name == "open":
                p, flags = self.resolve(None, a[0]), a[1]
            else:
                p, flags = self.resolve(None, a[0]), "O_WRONLY|O_CREAT|O_TRUNC"
            if not self.tracked(p):
                return
            mode, fl = parse_flags(flags)
            if "O_DIRECTORY" in fl or "O_PATH" in fl or p in self.dirs or p in self.roots:
                ev["_relevant"] = False
                return
            if "O_TMPFILE" in fl or (mode == "r" and "O_TRUNC" in fl):
                return self.X("open flags " + flags)
            if ok == "1":
                if ret in self.fdtab:
                    return self.X("descriptor %d returned while still tracked as open" % ret)
                self.fdtab[ret] = p
            self.ops.append("O %d %s %d %d %d %d %d %s" % (
                self.pid_(p), mode, "O_CREAT" in fl, "O_EXCL" in fl, "O_TRUNC" in fl, "O_APPEND" in fl,
                ret if ok == "1" else 0, ok))
            return
        if name in ("write", "pwrite64", "lseek", "ftruncate", "fsync", "fdatasync", "close"):
            fd, fp = annot(a[0])
            if fd not in self.fdtab:
                if self.tracked(fp) and not os.path.isdir(fp) and fp not in self.dirs and name != "close":
                    self.X("%s on an untracked descriptor of %s" % (name, fp))
                elif self.tracked(fp):
                    ev["_relevant"] = False
                return
            if name == "write":
                data = cstr(a[1]) if ok == "1" else b""
                self.ops.append("W %d %s %s" % (fd, (data[:ret].hex() or "e") if ok == "1" else "e", ok))
            elif name == "pwrite64":
                data = cstr(a[1]) if ok == "1" else b""
                self.ops.append("P %d %d %s %s" % (fd, int(a[3]), (data[:ret].hex() or "e") if ok == "1" else "e", ok))
            elif name == "lseek":
                self.ops.append("L %d %d %s" % (fd, ret if ok == "1" else 0, ok))
            elif name == "ftruncate":
                self.ops.append("T %d %d %s" % (fd, int(a[1]), ok))
            elif name in ("fsync", "fdatasync"):
                self.ops.append("S %d %s" % (fd, ok))
            else:
                self.ops.append("C %d %s" % (fd, ok))
                if ok == "1":
                    del self.fdtab[fd]
            return
        if name in ("rename", "renameat", "renameat2"):
            if name == "rename":
                pa, pb, fl = self.resolve(None, a[0]), self.resolve(None, a[1]), "0"
            else:
                pa, pb = self.resolve(a[0], a[1]), self.resolve(a[2], a[3])
                fl = a[4] if name == "renameat2" else "0"
            if not (self.tracked(pa) or self.tracked(pb)):
                return
            if fl != "0":
                return self.X("renameat2 flags " + fl)
            if self.tracked(pa) != self.tracked(pb):
                return self.X("rename across the border of the work directory")
            if self.is_dir_of_tracked(pa) or self.is_dir_of_tracked(pb) or pa in self.dirs or pb in self.dirs:
                return self.X("rename of a directory %s -> %s" % (pa, pb))
            self.ops.append("R %d %d %s" % (self.pid_(pa), self.pid_(pb), ok))
            return
        if name in ("unlink", "unlinkat", "rmdir"):
            if name == "unlinkat":
                p = self.resolve(a[0], a[1])
                isdir = "AT_REMOVEDIR" in a[2]
            else:
                p, isdir = self.resolve(None, a[0]), name == "rmdir"
            if not self.tracked(p):
                return
            if isdir:
                if ok == "1" and self.is_dir_of_tracked(p) and any(
                        q.startswith(p + "/") and i < self.n_finals() for q, i in self.ids.items()):
                    return self.X("rmdir above a published path")
                ev["_relevant"] = True
                return
            self.ops.append("U %d %s" % (self.pid_(p), ok))
            return
        if name in ("mkdir", "mkdirat"):
            p = self.resolve(a[0], a[1]) if name == "mkdirat" else self.resolve(None, a[0])
            if not self.tracked(p):
                return
            if ok == "1":
                self.dirs.add(p)
            self.ops.append("M %d %s" % (self.pid_(p), ok))
            return
        if name == "fcntl":
            fd, fp = annot(a[0])
            if fd in self.fdtab and (a[1].startswith("F_DUPFD") or a[1] == "F_SETFL"):
                self.X("fcntl %s on a tracked descriptor" % a[1])
            return
        if name == "mmap":
            if len(a) >= 5 and "MAP_SHARED" in a[3] and "PROT_WRITE" in a[2]:
                fd, fp = annot(a[4])
                if fd in self.fdtab or self.tracked(fp):
                    self.X("shared writable mmap of a tracked file")
            return
        if name in ("clone", "clone3", "fork", "vfork"):
            if self.fdtab:
                self.X("%s while tracked descriptors are open" % name)
            return
        if name == "close_range":
            lo, hi = int(a[0]), int(a[1]) if a[1].isdigit() else 1 << 30
            if any(lo <= fd <= hi for fd in self.fdtab):
                self.X("close_range over tracked descriptors")
            return
        # everything else in the traced set: unsupported as soon as it mentions a tracked path or descriptor
        txt = " ".join(a)
        hit = any(r in txt for r in self.roots)
        if name in ("link", "symlink", "truncate"):          # plain-path calls: relative to the current directory
            for tok in a[:1 if name == "truncate" else 2]:
                if tok.startswith('"') and self.tracked(self.resolve(None, tok)):
                    hit = True
        for tok in a:
            m = re.match(r"^(\d+)(<|$)", tok)
            if m and int(m.group(1)) in self.fdtab and name not in ("execve",):
                hit = True
        if hit:
            self.X("%s(%s)" % (name, txt[:100]))

    def n_finals(self):
        return getattr(self, "_nf", 0)


def abstract(text, D, finals):
    events, killed, pids = parse_log(text)
    ab = Abstraction(D, finals)
    ab._nf = len(finals)
    if not pids:
        raise ParseError("empty log")
    ab.feed(events, pids[0])
    return ab, events, killed
