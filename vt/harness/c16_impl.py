"""Drives the REAL qs.jobs.workq + qs.qserve.QPlugin objects of the snapshot in-process, under real
gevent, and (optionally) the extracted model next to it.

  python -m vt.harness.c16_impl PROP [EXE|-] [--trace]      stdin: one history per line

Connections are greenlets with the life cycle of rpcserver.handle_client: they execute blocking
requests (rpc_qpull / rpc_qwait), a disconnect is greenlet.kill(block=False), and when the greenlet
dies its `finally` runs QPlugin.shutdown().  The driver runs as a callback of the gevent hub: it
switches into a connection greenlet to start a request and gets control back the moment that
greenlet blocks (exactly as the hub does for an incoming request), so the stretch between two
RunLoop ops is atomic; at RunLoop it re-queues itself with loop.run_callback and returns, which
lets the hub run every callback that was queued before (the semantics of gevent.sleep(0)).
random.choice and time.time are replaced in the namespace of qs.jobs only.

Per history one JSON line: {"i", "n", "diff", "viol":[{"mon","at","msg"}], "kinds":{...}}."""
import atexit
import heapq
import json
import logging
import os
import pickle
import shutil
import subprocess
import sys
import tempfile
import types

logging.disable(logging.CRITICAL)
import gevent  # noqa: E402
import gevent.event  # noqa: E402
from gevent.hub import get_hub  # noqa: E402
from greenlet import getcurrent  # noqa: E402

import qs.log  # noqa: E402

qs.log.root_logger.disabled = True
from qs import jobs, qserve  # noqa: E402

from vt.harness import c16_common as cm  # noqa: E402

hub = get_hub()


class CUR:
    now = 0
    choices = []
    timers = []      # virtual timers of VEvent.wait(timeout=...): [deadline in virtual seconds, AsyncResult]


def fire_timers():
    """The virtual clock moved (ops T, U) or a timed wait started: every timed wait whose deadline has passed
    times out, exactly as gevent's Timeout would once the wall clock passes it (delivered at the next loop turn)."""
    for ent in list(CUR.timers):
        if ent[0] <= CUR.now:
            CUR.timers.remove(ent)
            if not ent[1].ready():
                ent[1].set(False)


def _draw():
    return CUR.choices.pop(0) if CUR.choices else 0


class FakeRandom:
    """Stands in for the `random` module inside qs.jobs.  Every draw - whatever function the code uses to pick one of n
    things - is answered by the next pending `Choice k` of the history (0 when none is pending), reduced to the range asked
    for: choice(seq) = seq[k % n], randrange(n) = k % n, ...  Anything else falls through to a seeded random.Random."""

    def __init__(self):
        import random as _r
        self._real = _r.Random(0)

    def choice(self, seq):
        k = _draw()
        return seq[k % len(seq)]

    def randrange(self, start, stop=None, step=1):
        r = range(start) if stop is None else range(start, stop, step)
        return r[_draw() % len(r)]

    def randint(self, a, b):
        return self.randrange(a, b + 1)

    def choices(self, population, weights=None, cum_weights=None, k=1):
        return [self.choice(population) for _ in range(k)]

    def sample(self, population, k, counts=None):
        pop = list(population)
        n = _draw() % max(1, len(pop))
        return (pop[n:] + pop[:n])[:k]

    def shuffle(self, x):
        if len(x):
            n = _draw() % len(x)
            x[:] = x[n:] + x[:n]

    def random(self):
        return (_draw() % 1000) / 1000.0

    def __getattr__(self, name):
        return getattr(self._real, name)


def as_job(x):
    """the job object inside a container entry (the object itself, or a tuple/list that carries it)"""
    if hasattr(x, "serial") and hasattr(x, "jobid"):
        return x
    if isinstance(x, (tuple, list)):
        for y in x:
            if hasattr(y, "serial") and hasattr(y, "jobid"):
                return y
    return None


def running_entries(plugin):
    """[(jobid, job object or None)] = what a connection's running_jobs holds, whatever container the code uses for it
    (dict id -> job, dict/set/list of ids, collection of job objects); None = not readable at all.  The property does not
    mention this internal: the monitors fall back on their own book-keeping of deliveries when the objects are not there."""
    rj = getattr(plugin, "running_jobs", None)
    if rj is None:
        return None
    try:
        res = []
        if isinstance(rj, dict):
            for k, v in list(rj.items()):
                j = as_job(v) or as_job(k)
                res.append((j.jobid if j is not None else k, j))
        else:
            for x in list(rj):
                j = as_job(x)
                res.append((j.jobid if j is not None else x, j))
        return res
    except Exception:
        return None


class AR(gevent.event.AsyncResult):
    """AsyncResult that remembers which connection created it (observation only)."""

    def __init__(self):
        super().__init__()
        st = getattr(getcurrent(), "vt_state", None)
        self.vt_conn = st
        if st is not None:
            st["ev"] = self
            if st["sim"].in_loop:
                # a woken puller found its job finished and blocks again (pop's retry): the model's
                # pop_or_block reports OBlocked there too
                st["sim"].log.append(["blocked"])


class VEvent(gevent.event.Event):
    """gevent Event whose wait(timeout=...) counts the timeout on the VIRTUAL clock (CUR.now) instead of the wall
    clock, so that code which bounds a wait by time.time()-derived amounts is exercised deterministically.  wait()
    without timeout and every other method are gevent's own."""

    def wait(self, timeout=None):
        st = getattr(getcurrent(), "vt_state", None)
        if st is not None:
            st["wait_ev"] = self         # observation only: which finish event this connection is blocked on
        if timeout is None or self.is_set():
            return super().wait()
        ar = gevent.event.AsyncResult()

        def cb(_):
            if not ar.ready():
                ar.set(True)

        self.rawlink(cb)
        ent = [CUR.now + timeout, ar]
        CUR.timers.append(ent)
        fire_timers()
        try:
            return ar.get()
        finally:
            self.unlink(cb)
            if ent in CUR.timers:
                CUR.timers.remove(ent)


jobs.random = FakeRandom()
jobs.time = types.SimpleNamespace(time=lambda: CUR.now)
jobs.event = types.SimpleNamespace(Event=VEvent, AsyncResult=AR)


def chan_s(k):
    return "c%d" % k


def chan_n(s):
    return int(s[1:])


def jid_py(t):
    return int(t[1:]) if t[0] == "a" else chr(65 + int(t[1:]))


def jid_s(j):
    return "a%d" % j if isinstance(j, int) else "n%d" % (ord(j) - 65)


def err_code(e):
    if e in cm.ERR_CODES:
        return cm.ERR_CODES[e]
    return 99


def rec(d):
    """canonical job record from a _json() dict"""
    info = d.get("info") or {}
    return [d.get("serial"), jid_s(d.get("jobid")), chan_n(d["channel"]), d["priority"], d["timeout"],
            bool(d.get("done", False)), err_code(d.get("error")), d.get("result"), info.get("p"), d.get("ttl", 3600),
            d.get("deadline"), bool(d.get("drop", False))]


class DATA:
    dir = None          # ONE data dir per harness process (mkdir/rmdir per history costs >100 ms on the loaded machine, a file
                        # write/unlink 0.1 ms); emptied before and after every history, removed at exit


def history_datadir():
    """an EMPTY data dir for the next history (as mw-qserve -d DIR gets it: workq.pickle written by Main.savedb, read by
    Main.loaddb)"""
    if DATA.dir is None:
        DATA.dir = tempfile.mkdtemp(prefix="vt-c18-", dir="/var/tmp")
        atexit.register(shutil.rmtree, DATA.dir, True)
    empty_datadir()
    return DATA.dir


def empty_datadir():
    if DATA.dir is not None:
        for fn in os.listdir(DATA.dir):
            os.unlink(os.path.join(DATA.dir, fn))


def new_main(datadir):
    """A server object as mw-qserve builds it (qserve.main: Main(port, interface, data_dir, allowed_ips)); __init__ runs
    loaddb().  run() is never called: no sockets; the harness plays the server session on m.db and calls m.savedb() where
    run()'s `finally` does."""
    return qserve.Main(0, "127.0.0.1", datadir, set())


def db_state(d):
    """what a saved db must carry: serial counter, every registered job (canonical record) under its id, key2data"""
    wq = d.workq
    return {"count": wq.count,
            "jobs": sorted((rec(j._json()) for j in wq.id2job.values()), key=lambda r: (r[0] is None, r[0])),
            "ids": sorted(([jid_s(k), j.serial] for k, j in wq.id2job.items()), key=repr),
            "key2data": sorted(d.key2data.items(), key=repr)}


def pull_order(q):
    """(priority, serial) of the unfinished jobs of one channel queue in the order successive pops hand them out
    (jobs.py pop: heappop of the list, finished heads preened)"""
    q2 = list(q)
    res = []
    while q2:
        j = heapq.heappop(q2)
        if not j.done:
            res.append((j.priority, j.serial))
    return res


class Sim:
    def __init__(self, datadir=None):
        # C18 histories (those with a restart) run as server sessions: Main.loaddb at (re)start, ops, Main.savedb at stop
        self.datadir = datadir
        self.main = new_main(datadir) if datadir is not None else None
        self.db = self.main.db if self.main is not None else qserve.db()
        self.wq = self.db.workq
        self.holder = {}        # connection -> serials of the jobs it received (the monitor's own book-keeping)
        self.kill_won = set()   # serials of jobs that a Kill request found unfinished (survives restarts)
        self.loop_mail = {}
        self.loop_queued = {}
        self.conns = {}
        self.log = []
        self.tracked = {}       # serial -> job object (every object seen in id2job)
        self.final = {}         # serial -> (error, result) when first seen done
        self.handed = {}
        self.requeued = {}
        self.base_done = {}     # channel -> finished jobs that existed at the last restart
        self.issued = {}        # serial -> jobid of every job object ever created (survives restarts)
        self.viol = []
        self.at = 0
        self.done_before_loop = set()
        self.in_loop = False
        self.bb = {}            # BLACK-BOX book-keeping, from RPC return values only: serial -> {"id","done","fin","holder","at"}
        self.bb_ids = []        # every job id an add request returned
        self.unreadable = set() # white-box fields that could not be read on this code (the tie drops them, obligation broken)
        CUR.now = 0
        CUR.choices = []
        CUR.timers = []

    # ------------------------------------------------------------ connections
    def conn(self, c):
        st = self.conns.get(c)
        if st is not None:
            return st
        plugin = qserve.QPlugin()
        plugin.workq = self.wq
        plugin.db = self.db
        st = {"id": c, "state": "new", "cmd": None, "plugin": plugin, "ev": None, "sim": self}

        def body():
            try:
                while True:
                    st["state"] = "idle"
                    st["cmd"] = None
                    cmd = hub.switch()
                    st["state"] = "busy"
                    st["cmd"] = cmd
                    try:
                        if cmd[0] == "pull":
                            r = plugin.rpc_qpull(list(cmd[1]))
                            st["sim"].log.append(["deliver", c, list(cmd[1]), rec(r)])
                        else:
                            r = plugin.rpc_qwait(list(cmd[1]))
                            recs = [rec(x) for x in r]
                            st["sim"].wait_returned(st, recs)
                            for x in recs:
                                st["sim"].log.append(["released", c, x])
                    except Exception as e:   # rpcserver: error response, the connection lives on
                        if cmd[0] == "wait" and st.get("wait_all") is not None:
                            # every id named a job when the wait started: the client must get those jobs, finished
                            st["sim"].v("wait", "connection %d waited for the jobs with serials %s and got the error response %s(%s) instead of the finished jobs" % (
                                c, st["wait_all"], type(e).__name__, e))
                        elif not (cmd[0] == "wait" and isinstance(e, KeyError)):
                            st["sim"].v("rpc_error", "%s request of connection %d failed with %s: %s" % (cmd[0], c, type(e).__name__, e))
                        st["sim"].log.append(["keyerr"])
            finally:
                st["state"] = "dead"
                try:
                    plugin.shutdown()        # rpcserver.py handle_client: finally: handle_request.shutdown()
                finally:
                    st["sim"].log.append(["died", c])

        g = gevent.Greenlet(body)
        g.vt_state = st
        st["g"] = g
        g.switch()               # runs to the first hub.switch(): idle
        self.conns[c] = st
        return st

    def live(self):
        return [st for st in self.conns.values() if st["state"] != "dead"]

    # ------------------------------------------------------------ snapshot of the real objects
    def track(self):
        try:
            for j in list(self.wq.id2job.values()):
                self.tracked.setdefault(j.serial, j)
        except Exception:
            self.unreadable.add("id2job")
        try:
            for q in list(self.wq.channel2q.values()):
                for x in q:
                    j = as_job(x)
                    if j is not None:
                        self.tracked.setdefault(j.serial, j)
        except Exception:
            self.unreadable.add("channel2q")

    def queues(self):
        """channel -> job objects of its queue (heap order), whatever the entries are wrapped in"""
        return {k: [j for j in (as_job(x) for x in q) if j is not None] for k, q in self.wq.channel2q.items()}

    def held_objs(self, st):
        """job objects connection st holds according to ITS running_jobs; None when that internal does not carry objects"""
        ent = running_entries(st["plugin"])
        if ent is None or any(j is None for _, j in ent):
            return None
        return [j for _, j in ent]

    def waiting_on(self, st):
        """serial of the job whose finish event connection st is blocked on (None = unknown)"""
        ev = st.get("wait_ev")
        for s, j in self.tracked.items():
            if getattr(j, "finish_event", None) is ev:
                return s
        return None

    def snap(self):
        """canonical snapshot of the real objects for the tie.  Every field is read on its own: a field whose internal
        representation cannot be read on this code is left out (self.unreadable; the tie on it is dropped and reported
        as broken) - the monitors keep running."""
        wq = self.wq
        self.track()
        res = {"now": CUR.now, "nchoices": len(CUR.choices)}

        def conns_f():
            conns = []
            for c in sorted(self.conns):
                st = self.conns[c]
                ent = running_entries(st["plugin"])
                if ent is None or any(j is None for _, j in ent) or not isinstance(st["plugin"].running_jobs, dict):
                    self.unreadable.add("running_jobs")
                    run = None
                else:
                    run = [[jid_s(k), j.serial] for k, j in ent]
                if st["state"] == "dead":
                    conns.append([c, "dead", None, None, []])
                elif st["state"] == "idle":
                    if run or run is None:
                        conns.append([c, "idle", None, None, run])
                elif st["cmd"][0] == "pull":
                    ev = st["ev"]
                    mb = ev.value.serial if ev is not None and ev.ready() else None
                    conns.append([c, "pull", [chan_n(x) for x in st["cmd"][1]], mb, run])
                else:
                    conns.append([c, "wait", st.get("wait_all"), self.waiting_on(st), run])
            return conns

        fields = {
            "count": lambda: wq.count,
            "jobs": lambda: [rec(self.tracked[s]._json()) for s in sorted(self.tracked)],
            "ids": lambda: sorted([jid_s(k), j.serial] for k, j in wq.id2job.items()),
            "queues": lambda: [[chan_n(k), sorted([j.priority, j.serial] for j in q)] for k, q in sorted(self.queues().items())],
            "waiters": lambda: [[w[1].vt_conn["id"], [chan_n(x) for x in w[0]]] for w in wq._waiters],
            "conns": conns_f,
            "tq": lambda: sorted([d, j.priority, j.serial] for d, j in wq.timeoutq),
            "cnt": lambda: [[chan_n(k), [v["error"], v["timeout"], v["killed"], v["success"]]] for k, v in sorted(wq._channel2count.items())],
        }
        for f, fn in fields.items():
            try:
                res[f] = fn()
            except Exception:
                self.unreadable.add(f)
        return res

    # ------------------------------------------------------------ monitors (property oracles on the real objects)
    def v(self, mon, msg):
        self.viol.append({"mon": mon, "at": self.at, "msg": msg})

    # ---- BLACK-BOX monitors: RPC return values only (rpc_qadd / rpc_qinfo / rpc_qpull / rpc_qwait records, `died`)
    def bb_entry(self, r):
        e = self.bb.get(r[0])
        if e is None:
            e = self.bb[r[0]] = {"id": r[1], "done": False, "fin": None, "holder": None, "at": None}
        return e

    def bb_see(self, r, how):
        """a job record seen in an RPC answer: 'a job's outcome is final'"""
        e = self.bb_entry(r)
        fin = (r[6], r[7])
        if r[5]:
            if e["done"] and e["fin"] != fin:
                self.v("final", "job %s (serial %s) was reported finished with (error code,result)=%r and %s now reports %r" % (r[1], r[0], e["fin"], how, fin))
            if not e["done"]:
                e["done"], e["fin"], e["holder"] = True, fin, None
        elif e["done"]:
            self.v("final", "job %s (serial %s) was reported finished and %s now reports it unfinished" % (r[1], r[0], how))
        return e

    def bb_probe(self):
        """rpc_qinfo of every id an add ever returned (a read-only request).  Returns {id text: record}."""
        res = {}
        p = self.conn(0)["plugin"]
        for i in self.bb_ids:
            try:
                d = p.rpc_qinfo(i)
            except Exception as e:
                self.v("rpc_error", "rpc_qinfo(%r) failed with %s: %s" % (i, type(e).__name__, e))
                continue
            if d is not None:
                r = rec(d)
                self.bb_see(r, "rpc_qinfo")
                res[jid_s(i)] = r
        return res

    def bb_out(self, out):
        for o in out:
            if o[0] == "deliver":
                r = o[3]
                e = self.bb_entry(r)
                h = e["holder"]
                if h is not None and h in self.conns and self.conns[h]["state"] != "dead" and not r[5]:
                    # "handed to exactly one worker ... again only if its worker's connection drops before finishing it"
                    self.v("bb_handout", "rpc_qpull of connection %d returned job %s (serial %s) although connection %d received it at op %s, has not "
                           "disconnected, and the job is not finished" % (o[1], r[1], r[0], h, e["at"]))
                self.bb_see(r, "rpc_qpull")
                if not r[5]:
                    e["holder"], e["at"] = o[1], self.at
            elif o[0] == "released":
                self.bb_see(o[2], "rpc_qwait")
            elif o[0] == "info" and o[1] is not None:
                self.bb_see(o[1], "rpc_qinfo")
            elif o[0] == "died":
                for e in self.bb.values():
                    if e["holder"] == o[1]:
                        e["holder"] = None

    def wait_returned(self, st, recs):
        """rpc_qwait of connection st returned: it must carry the jobs the ids named WHEN THE REQUEST ARRIVED, all finished"""
        want = st.get("wait_all")
        got = [r[0] for r in recs]
        if want is not None and got != want:
            self.v("wait", "connection %d asked to wait for %r = the jobs with serials %r and received the records of serials %r" % (
                st["id"], [jid_s(x) for x in st["cmd"][1]], want, got))

    def is_done_bb(self, ser):
        j = self.tracked.get(ser)
        e = self.bb.get(ser)
        return bool((j is not None and j.done) or (e is not None and e["done"]))

    def drain(self):
        """End of a history, every connection has disconnected: a fresh worker pulls all channels until it blocks.  Every job
        that was accepted and is not finished must come out exactly once (C16: neither lost nor duplicated; the order and the
        finished-ness of what comes out is checked by the pull monitors of C17)."""
        known = self.bb_probe()
        expect = {}
        for i, r in known.items():
            if not r[5] and not self.is_done_bb(r[0]):
                expect[r[0]] = r[1]
        got = []
        c = 90
        while c in self.conns:
            c += 1
        for _ in range(len(self.bb) + len(self.tracked) + 3):
            out = self.do(["P", str(c), "-"])
            self.monitor_out(out)
            d = [o for o in out if o[0] == "deliver"]
            if not d:
                break
            got.extend(o[3][0] for o in d)
        for ser, i in sorted(expect.items()):
            if ser not in got:
                self.v("bb_lost", "job %s (serial %s) was accepted and is not finished (rpc_qinfo), every other connection has disconnected, and a fresh "
                       "worker pulling all channels until it blocks did not receive it (received serials %r)" % (i, ser, got))

    def monitor_state(self):
        try:
            self.monitor_state_wb()
        except Exception as e:
            self.unreadable.add("monitor_state:%s" % type(e).__name__)

    def monitor_state_wb(self):
        """white-box oracles on the real objects (queues, mailboxes, job objects); internals the property does not mention
        are read through adapters (queues(), held_objs()) and replaced by the black-box book-keeping when unreadable"""
        wq = self.wq
        self.track()
        queues = self.queues()
        for ser, j in self.tracked.items():
            if j.done:
                fin = (j.error, j.result)
                if ser in self.final:
                    if self.final[ser] != fin:
                        self.v("final", "job %s (serial %d) was finished with (error,result)=%r and now has %r" % (jid_s(j.jobid), ser, self.final[ser], fin))
                else:
                    self.final[ser] = fin
                if not j.finish_event.is_set():
                    self.v("wait", "job serial %d is done but its finish event is not set" % ser)
                if self.handed.get(ser, 0) > self.requeued.get(ser, 0) + 1:
                    self.v("handout", "job serial %d handed out %d times with %d re-queues" % (ser, self.handed.get(ser, 0), self.requeued.get(ser, 0)))
                continue
            if ser in self.final:
                self.v("final", "job serial %d was done and is not done any more" % ser)
            if j.finish_event.is_set():
                self.v("wait", "job serial %d is not done but its finish event is set" % ser)
            places = []
            for k, q in queues.items():
                n = sum(1 for x in q if x is j)
                if n:
                    places.append("queue %s x%d" % (k, n))
                    if k != j.channel:
                        self.v("conservation", "job serial %d of channel %s sits in the queue of %s" % (ser, j.channel, k))
                    places.extend(["dup"] * (n - 1))
            held = 0
            for st in self.live():
                objs = self.held_objs(st)
                if objs is not None:
                    n = sum(1 for x in objs if x is j)
                else:       # running_jobs carries no job objects on this code: what the connection was handed and has not given back
                    n = 1 if ser in self.holder.get(st["id"], ()) else 0
                if n:
                    places.append("running of connection %d" % st["id"])
                    places.extend(["dup"] * (n - 1))
                    held += n
                if st["state"] == "busy" and st["cmd"][0] == "pull" and st["ev"] is not None and st["ev"].ready() and st["ev"].value is j:
                    places.append("handed to blocked connection %d" % st["id"])
            if len(places) != 1:
                self.v("conservation", "unfinished job %s (serial %d) is in %d places: %s" % (jid_s(j.jobid), ser, len(places), places))
            if wq.id2job.get(j.jobid) is not j:
                other = wq.id2job.get(j.jobid)
                self.v("addressable", "unfinished job %s (serial %d) is not the job registered under its id (id2job has serial %s)" % (
                    jid_s(j.jobid), ser, getattr(other, "serial", None)))
            if self.handed.get(ser, 0) != self.requeued.get(ser, 0) + held:
                self.v("handout", "unfinished job serial %d: handed out %d times, re-queued by a disconnect %d times, held by %d workers" % (
                    ser, self.handed.get(ser, 0), self.requeued.get(ser, 0), held))
        # a worker is left blocked in its pull (registered waiter, nothing handed to it) while an unfinished job of a
        # channel it asked for sits in the queue: it "receives ... among queued candidates the lowest" - not nothing
        for w in wq._waiters:
            chs = [chan_n(x) for x in w[0]]
            cands = self.candidates(chs)
            if cands:
                who = getattr(w[1], "vt_conn", None)
                self.v("min_first", "connection %s is blocked in a pull of channels %r although unfinished jobs (prio,serial) %r are queued" % (
                    who["id"] if who else "?", chs, sorted(cands)))
        # counters add up to the number of jobs finished since the server (re)started
        chans = set(wq._channel2count) | set(j.channel for j in self.tracked.values())
        for ch in chans:
            c = wq._channel2count.get(ch, {})
            tot = sum(c.values())
            fin = sum(1 for j in self.tracked.values() if j.done and j.channel == ch) - self.base_done.get(ch, 0)
            if tot != fin:
                self.v("counters", "channel %s: counters %r add up to %d but %d jobs finished" % (ch, c, tot, fin))

    def monitor_out(self, out, before_candidates=None, pull=None):
        self.track()
        self.bb_out(out)
        for o in out:
            if o[0] == "deliver":
                r = o[3]
                self.handed[r[0]] = self.handed.get(r[0], 0) + 1
                self.holder.setdefault(o[1], set()).add(r[0])
                if r[5]:
                    self.v("never_done", "connection %d received finished job serial %d (error code %r)" % (o[1], r[0], r[6]))
                if o[2] and r[2] not in o[2]:
                    self.v("eligible", "connection %d asked for channels %r and received job serial %d of channel %d" % (o[1], o[2], r[0], r[2]))
            elif o[0] == "released":
                if not o[2][5]:
                    self.v("wait", "connection %d released from wait on unfinished job serial %d" % (o[1], o[2][0]))
            elif o[0] == "died":
                # "again only if its worker's connection drops before finishing it": one more hand-out is due for every
                # unfinished job THIS connection had received (own book-keeping: the plugin's running_jobs is the code
                # under test and shutdown() may have rewritten it)
                for ser in sorted(self.holder.pop(o[1], ())):
                    j = self.tracked.get(ser)
                    if j is not None and not j.done:
                        self.requeued[ser] = self.requeued.get(ser, 0) + 1

    def candidates(self, chs):
        res = []
        try:
            for k, q in self.queues().items():
                if chs and chan_n(k) not in chs:
                    continue
                res.extend((j.priority, j.serial) for j in q if not j.done)
        except Exception:
            self.unreadable.add("channel2q")
        return res

    # ------------------------------------------------------------ ops
    def do(self, t):
        """Run one op (token list) except RunLoop; returns out list."""
        wq = self.wq
        k = t[0]
        if k == "A":
            ch, prio = chan_s(int(t[1])), int(t[2])
            name = None if t[3] == "-" else chr(65 + int(t[3]))
            tmo = None if t[4] == "-" else int(t[4])
            old = wq.id2job.get(name) if name is not None else None
            count0 = wq.count
            self.track()
            # accepted, unfinished jobs that carry this id (whether or not id2job still knows them)
            live_same = [j for j in self.tracked.values() if name is not None and j.jobid == name and not j.done]
            p = self.conn(0)["plugin"]
            try:
                r = p.rpc_qadd(ch, payload=None, priority=prio, jobid=name, timeout=tmo)
            except Exception as e:
                self.v("rpc_error", "rpc_qadd(%r, jobid=%r) failed with %s: %s" % (ch, name, type(e).__name__, e))
                return [["error", type(e).__name__]]
            if r not in self.bb_ids and isinstance(r, (int, str)):
                self.bb_ids.append(r)
            if wq.count != count0 or (name is None):
                nj = wq.id2job.get(r)
                if nj is not None and (old is None or nj is not old):
                    # a NEW job object: its serial, and its id when the server chose it, must never have been issued
                    # before - not even before a restart (C18: "job ids are not reused for new jobs")
                    if nj.serial in self.issued:
                        self.v("id_reuse", "new job got serial %r which was issued before to job %s" % (nj.serial, jid_s(self.issued[nj.serial])))
                    elif name is None and r in self.issued.values():
                        self.v("id_reuse", "new job got the server-chosen id %r which was issued before" % (r,))
                    self.issued.setdefault(nj.serial, r)
            if old is not None:
                # "(unless that one was killed)": killed = a Kill request found the job unfinished (the first of finish /
                # kill / timeout wins).  A job whose WORKER reported the error text 'killed' is neither clearly killed nor
                # clearly not: the property text demands nothing for it
                if old.serial not in self.kill_won and old.error == "killed":
                    pass
                elif old.serial not in self.kill_won:
                    if r != name or wq.count != count0 or wq.id2job.get(name) is not old:
                        self.v("readd", "add under existing id %r created a second job (returned %r, count %d -> %d)" % (name, r, count0, wq.count))
                elif wq.id2job.get(name) is old:
                    self.v("readd", "add under the id %r of a killed job did not create a new job" % name)
            elif wq.count != count0 + 1:
                self.v("readd", "add of a new job did not take a fresh serial")
            elif live_same:
                self.v("readd", "add under id %r created a second job although the unfinished job serial %d has that id (it is not registered in id2job any more)" % (
                    name, live_same[0].serial))
            return [["jid", jid_s(r) if isinstance(r, (int, str)) and (isinstance(r, int) or len(r) == 1) else repr(r)]]
        if k == "P":
            c = int(t[1])
            chs = [] if t[2] == "-" else [int(x) for x in t[2].split(",")]
            st = self.conn(c)
            if st["state"] != "idle":
                return [["busy"]]
            cands = self.candidates(chs)
            self.log = []
            st["g"].switch(("pull", [chan_s(x) for x in chs]))
            out = self.log
            self.log = []
            out = [[o[0], o[1], chs, o[3]] if o[0] == "deliver" else o for o in out]
            if st["state"] == "busy":
                if cands:
                    self.v("min_first", "pull of channels %r blocked although unfinished jobs %r were queued" % (chs, cands))
                return out + [["blocked"]]
            if out and out[0][0] == "deliver":
                got = (out[0][3][3], out[0][3][0])
                if not cands or got != min(cands):
                    self.v("min_first", "pull of channels %r returned (prio,serial)=%r, queued unfinished candidates were %r" % (chs, got, sorted(cands)))
            return out
        if k in ("F", "K"):
            st = self.conn(int(t[1]))
            if st["state"] != "idle":
                return [["busy"]]
            p = st["plugin"]
            if k == "F":
                try:
                    p.rpc_qfinish(jid_py(t[2]), result=None if t[3] == "-" else int(t[3]),
                                  error=None if t[4] == "-" else cm.ERR_STR.get(int(t[4]), "boom"))
                except KeyError:
                    return [["keyerr"]]
                except Exception as e:
                    self.v("rpc_error", "rpc_qfinish(%s) failed with %s: %s" % (t[2], type(e).__name__, e))
                    return [["error", type(e).__name__]]
                return [["unit"]]
            ids = [] if t[2] == "-" else [jid_py(x) for x in t[2].split(",")]
            for x in ids:
                j = wq.id2job.get(x)
                if j is not None and not j.done:
                    self.kill_won.add(j.serial)
            try:
                p.rpc_qkill(ids)
            except Exception as e:
                self.v("rpc_error", "rpc_qkill(%s) failed with %s: %s" % (t[2], type(e).__name__, e))
                return [["error", type(e).__name__]]
            return [["unit"]]
        if k == "T":
            CUR.now += int(t[1])
            wq.handletimeouts()
            fire_timers()
            self.track()
            for ser, j in self.tracked.items():
                if not j.done and j.timeout <= CUR.now:
                    self.v("timeout", "handletimeouts ran at t=%d but unfinished job serial %d with deadline %d was not timed out" % (CUR.now, ser, j.timeout))
            return [["unit"]]
        if k == "U":                      # the clock moves on; the once-a-second handletimeouts sweep has not run yet
            CUR.now += int(t[1])
            fire_timers()
            return [["unit"]]
        if k == "Y":
            self.conn(0)["plugin"].rpc_qdrop([] if t[1] == "-" else [jid_py(x) for x in t[1].split(",")])
            return [["unit"]]
        if k == "G":
            wq.dropdead()
            return [["unit"]]
        if k == "D":
            st = self.conn(int(t[1]))
            st["g"].kill(block=False)
            return [["unit"]]
        if k == "C":
            CUR.choices.append(int(t[1]))
            return [["unit"]]
        if k in ("W", "WL"):
            st = self.conn(int(t[1]))
            if st["state"] != "idle":
                return [["busy"]]
            ids = [] if t[2] == "-" else [jid_py(x) for x in t[2].split(",")]
            # which job OBJECTS the ids name now (rpc_qinfo, a read-only request): "clients waiting for a job are released
            # exactly when it is finished" speaks about these, whatever happens to the ids while the client waits
            named = []
            p0 = self.conn(0)["plugin"]
            for i in ids:
                try:
                    d = p0.rpc_qinfo(i)
                except Exception:
                    d = None
                named.append(rec(d)[0] if d is not None else None)
            st["wait_all"] = named if all(s is not None for s in named) else None
            st["wait_ev"] = None
            all_done = st["wait_all"] is not None and all(self.is_done_bb(s) for s in named)
            self.log = []
            st["g"].switch(("wait", ids))
            out = self.log
            self.log = []
            if st["state"] == "busy":
                # gevent: a wait on an already-set Event blocks until a still pending notifier of that event has
                # run (fairness); it is released in the next loop turn, which after_loop() checks
                if all_done:
                    self.done_before_loop.update(named)
                return out + [["blocked"]]
            return out
        if k == "I":
            r = self.conn(0)["plugin"].rpc_qinfo(jid_py(t[1]))
            return [["info", rec(r) if r is not None else None]]
        if k == "S":
            try:
                self.conn(0)["plugin"].rpc_qsetinfo(jid_py(t[1]), {"p": int(t[2])})
            except KeyError:
                return [["keyerr"]]
            return [["unit"]]
        if k == "X":
            s = self.conn(0)["plugin"].rpc_getstats()
            return [["stats", s["count"], s["numjobs"],
                     [[chan_n(c), [v["error"], v["timeout"], v["killed"], v["success"]]] for c, v in sorted(s["channel2stat"].items())],
                     [[chan_n(c), n] for c, n in sorted(s["busy"].items())]]]
        raise ValueError("bad op %r" % (t,))

    def before_loop(self):
        self.log = []
        self.in_loop = True
        self.done_before_loop = set(s for s, j in self.tracked.items() if j.done) | set(s for s, e in self.bb.items() if e["done"])
        # for the order oracle of after_loop: what every blocked puller has been handed, and which unfinished jobs are queued
        self.loop_mail = {}
        for st in self.live():
            if st["state"] == "busy" and st["cmd"][0] == "pull" and st["ev"] is not None and st["ev"].ready() and st["ev"].successful():
                self.loop_mail[st["id"]] = st["ev"].value.serial
        self.loop_queued = {}
        try:
            for k, q in self.queues().items():
                for j in q:
                    if not j.done:
                        self.loop_queued[j.serial] = (j.priority, chan_n(k))
        except Exception:
            self.unreadable.add("channel2q")

    def after_loop(self):
        out = self.log
        self.log = []
        self.in_loop = False
        res = []
        for o in out:
            if o[0] == "deliver":
                o = [o[0], o[1], [chan_n(x) for x in o[2]], o[3]]
            res.append(o)
        # order oracle for pulls that are served inside the event loop.  A delivery of this loop turn goes to a puller that
        # was handed a job before the turn (notifiers queued during the turn run in a later one).  If it received a DIFFERENT
        # job than the one it was handed, that one was finished meanwhile and the puller looked into the queues again: then
        # no job that sat queued and unfinished during the whole turn (queued before and after, not delivered in between) and
        # that it asked for may be smaller in (priority, serial) than what it got.
        delivered = set(o[3][0] for o in res if o[0] == "deliver")
        still = {}
        try:
            for k, q in self.queues().items():
                for j in q:
                    if not j.done and j.serial in self.loop_queued and j.serial not in delivered:
                        still[j.serial] = self.loop_queued[j.serial]
        except Exception:
            self.unreadable.add("channel2q")
        for o in res:
            if o[0] != "deliver" or o[1] not in self.loop_mail or self.loop_mail[o[1]] == o[3][0]:
                continue
            got = (o[3][3], o[3][0])
            better = sorted((p, s) for s, (p, ch) in still.items() if (not o[2] or ch in o[2]) and (p, s) < got)
            if better:
                self.v("min_first", "connection %d found its handed job finished, pulled channels %r again and received (prio,serial)=%r although %r were queued" % (
                    o[1], o[2], got, better))
        for st in self.live():
            if st["state"] == "busy" and st["cmd"][0] == "wait" and st.get("wait_all") is not None and all(s in self.done_before_loop for s in st["wait_all"]):
                self.v("wait", "connection %d is still blocked in its wait for %r although all the jobs it named (serials %r) were finished before the event loop ran" % (
                    st["id"], [jid_s(x) for x in st["cmd"][1]], st["wait_all"]))
        return res

    def kill_all(self):
        CUR.choices = []
        for st in self.live():
            st["g"].kill(block=False)

    # ------------------------------------------------------------ restart (C18)
    def restart(self):
        """The server stops and starts again; all connections are gone.  Two views of the saved state: the bare pickle round
        trip of the db (as before), and - when the history runs as server sessions (self.main) - the real stop/start path:
        Main.savedb() as run()'s `finally` calls it (before any connection greenlet gets to run its shutdown()), then a fresh
        Main on the same data dir whose __init__ runs loaddb().  The history continues on the db the NEW Main loaded."""
        old = self
        before = {s: rec(j._json()) for s, j in old.tracked.items() if old.wq.id2job.get(j.jobid) is j}
        blob = pickle.dumps(old.db, 2)
        main2 = None
        if old.main is not None:
            old.main.db = old.db
            old.main.savedb()
            main2 = new_main(old.datadir)
        old.kill_all()          # old greenlets die against the old object graph at the next loop turn
        ref = pickle.loads(blob)
        new = Sim.__new__(Sim)
        new.__dict__.update(db=main2.db if main2 is not None else ref, main=main2, datadir=old.datadir,
                            conns={}, log=[], tracked={}, final={}, handed={}, requeued={}, holder={}, loop_mail={}, loop_queued={},
                            base_done={}, viol=old.viol, at=old.at, done_before_loop=set(), in_loop=False, issued=old.issued,
                            kill_won=old.kill_won, bb=old.bb, bb_ids=old.bb_ids, unreadable=old.unreadable)
        for e in new.bb.values():
            e["holder"] = None       # every connection is gone
        CUR.timers = []
        new.wq = new.db.workq
        for st in old.conns.values():
            st["sim"] = old            # their late output goes to the old log
        new.track()
        wq = new.wq
        reft = {}
        for j in list(ref.workq.id2job.values()) + [x for q in ref.workq.channel2q.values() for x in q]:
            reft.setdefault(j.serial, j)
        after = {s: rec(j._json()) for s, j in reft.items()}
        if ref.workq.count != old.wq.count:
            new.v("restore", "count %d became %d (ids could be reused)" % (old.wq.count, ref.workq.count))
        if after != before:
            new.v("restore", "jobs differ after restore: before %r after %r" % (before, after))
        if main2 is not None:
            want, got = db_state(ref), db_state(new.db)
            if want != got:
                bad = [f for f in want if want[f] != got[f]]
                new.v("restore", "state saved by Main.savedb/loaddb differs from the queue's state at stop in %s: at stop %r, loaded at the next start %r" % (
                    ",".join(bad), {f: want[f] for f in bad}, {f: got[f] for f in bad}))
        for k, q in sorted(wq.channel2q.items()):
            # "unfinished jobs ... are pullable again in the same priority/FIFO order"
            order = pull_order(q)
            if order != sorted(order):
                new.v("restore", "after the restore successive pulls of channel %s hand out (prio,serial) %r, priority/FIFO order is %r" % (k, order, sorted(order)))
        for s, j in new.tracked.items():
            if j.finish_event.is_set() != bool(j.done):
                new.v("restore", "job serial %d: done=%r but finish event set=%r" % (s, j.done, j.finish_event.is_set()))
            inq = sum(1 for x in wq.channel2q.get(j.channel, []) if x is j)
            intq = [d for d, x in wq.timeoutq if x is j]
            if not j.done:
                if inq != 1:
                    new.v("restore", "unfinished job serial %d is %d times in its channel queue after restore" % (s, inq))
                if intq != [j.timeout]:
                    new.v("restore", "unfinished job serial %d has timeout entries %r (deadline %r)" % (s, intq, j.timeout))
            if j.done:
                new.base_done[j.channel] = new.base_done.get(j.channel, 0) + 1
                new.final[s] = (j.error, j.result)
        return new


def run_history(ops, prop, model, trace):
    """generator: yields at every RunLoop; result in the StopIteration value.  A history with a restart runs as server
    sessions on an (initially empty) data dir, emptied again when the history ends."""
    datadir = history_datadir() if any(op.split()[0] == "R" for op in ops) else None
    try:
        return (yield from _run_history(ops, prop, model, trace, datadir))
    finally:
        if datadir is not None:
            empty_datadir()


class MODEL:
    exe = None
    p = None

    @classmethod
    def start(cls):
        cls.p = subprocess.Popen([cls.exe], stdin=subprocess.PIPE, stdout=subprocess.PIPE, text=True, bufsize=1 << 16)

    @classmethod
    def restart(cls):
        try:
            cls.p.kill()
            cls.p.wait()
        except Exception:
            pass
        cls.start()


class LAST:
    sim = None


def _run_history(ops, prop, model, trace, datadir):
    sim = Sim(datadir)
    LAST.sim = sim
    diff = None
    kinds = {}
    steps = []
    if model is not None:
        model.p.stdin.write("N\n")
        model.p.stdin.flush()
        model.p.stdout.readline()
    for k, op in enumerate(ops):
        t = op.split()
        sim.at = k
        kinds[t[0]] = kinds.get(t[0], 0) + 1
        if t[0] == "L":
            sim.before_loop()
            yield
            out = sim.after_loop()
        elif t[0] == "R":
            sim = sim.restart()
            LAST.sim = sim
            yield                  # let the old connections die (they only touch the old objects)
            out = [["unit"]]
        else:
            out = sim.do(t)
        sim.monitor_out(out)
        sim.bb_probe()
        snap = sim.snap()
        sim.monitor_state()
        impl = {"out": out, "snap": snap}
        for o in out:
            kinds["out:" + o[0]] = kinds.get("out:" + o[0], 0) + 1
        m = None
        if model is not None:
            model.p.stdin.write(op + "\n")
            model.p.stdin.flush()
            m = json.loads(model.p.stdout.readline())
            if diff is None:
                diff = cm.compare(prop, k, op, impl, m)
        if trace:
            steps.append({"op": op, "impl": impl, "model": m})
    # ---- drain (black-box conservation): every connection disconnects; after the event loop has run, a fresh worker pulls
    # everything.  Two loop turns: the second one runs wake-ups queued during the first (they find their pullers dead).
    sim.at = len(ops)
    drained = []
    for turn in range(2):
        sim.before_loop()
        if turn == 0:
            sim.kill_all()
        yield
        out = sim.after_loop()
        sim.monitor_out(out)
        sim.bb_probe()
        drained.extend(out)
    sim.monitor_state()
    n0 = len(sim.viol)
    sim.drain()
    sim.monitor_state()
    if trace:
        steps.append({"op": "(drain: all connections disconnect; L; L; a fresh worker pulls all channels until it blocks)",
                      "impl": {"out": drained, "snap": sim.snap()}, "model": None})
    sim.kill_all()
    yield
    res = {"n": len(ops), "diff": diff, "viol": sim.viol, "kinds": kinds, "unreadable": sorted(sim.unreadable)}
    if trace:
        res["steps"] = steps
    return res


def main():
    prop = sys.argv[1]
    exe = sys.argv[2] if len(sys.argv) > 2 else "-"
    trace = "--trace" in sys.argv
    model = None
    if exe != "-":
        MODEL.exe = exe
        MODEL.start()
        model = MODEL
    lines = [ln.strip() for ln in sys.stdin if ln.strip()]
    finished = gevent.event.Event()
    state = {"i": 0, "gen": None, "err": None, "nerr": 0}
    outbuf = []

    def tramp():
        try:
            while True:
                if state["gen"] is None:
                    if state["i"] >= len(lines):
                        finished.set()
                        return
                    state["gen"] = run_history(cm.split_history(lines[state["i"]]), prop, model, trace)
                try:
                    next(state["gen"])
                    hub.loop.run_callback(tramp)     # = gevent.sleep(0): everything queued before runs first
                    return
                except StopIteration as e:
                    r = e.value
                    r["i"] = state["i"]
                    outbuf.append(json.dumps(r))
                    state["gen"] = None
                    state["i"] += 1
                except Exception:
                    # the harness itself failed on this history (an internal it reads has an unexpected shape, ...): the history
                    # counts as NOT CHECKED (broken obligation, fail closed), what the monitors found so far is kept, the run goes on
                    import traceback
                    state["nerr"] += 1
                    tb = traceback.format_exc()
                    sim = LAST.sim
                    r = {"i": state["i"], "n": 0, "diff": None, "viol": list(sim.viol) if sim is not None else [], "kinds": {},
                         "unreadable": sorted(sim.unreadable) if sim is not None else [],
                         "harness_error": tb[-1200:] if state["nerr"] <= 3 else tb.strip().splitlines()[-1][:200]}
                    outbuf.append(json.dumps(r))
                    try:
                        if sim is not None:
                            sim.kill_all()
                    except Exception:
                        pass
                    if model is not None:
                        model.restart()
                    state["gen"] = None
                    state["i"] += 1
                    hub.loop.run_callback(tramp)     # let the killed connections die before the next history starts
                    return
        except BaseException as e:   # noqa: B036
            import traceback
            state["err"] = traceback.format_exc()
            finished.set()

    hub.loop.run_callback(tramp)
    finished.wait()
    sys.stdout.write("\n".join(outbuf) + "\n")
    if state["err"]:
        sys.stdout.write(json.dumps({"fatal_harness_error": state["err"], "i": state["i"]}) + "\n")
        sys.exit(2)
    if model is not None:
        model.p.stdin.close()
        model.p.wait()


if __name__ == "__main__":
    main()
