"""C09: pages with SEVERAL protected regions whose contents are related (pure library, no mwlib import).

A page spec is symbolic:
  {"layout": name, "db": bool,
   "regions": [{"tag", "attrs", "variant", "place", "body": str}                      literal body
               {"tag", "attrs", "variant", "place", "wrap": j, "part": "complete"}    body = complete source text of region j
               {"tag", "attrs", "variant", "place", "wrap": j, "part": "inner"}]}     body = body of region j
so the relations "the body of one region is byte-identical to the full source / the body of another region
of the same page" (nowiki-wrapped copies of other regions, the same body under two tags, the same region
twice, the same body with other attributes) survive shrinking: deleting characters from a literal body
changes every copy with it.

Quantifier dimension covered: histories of one Uniquifier (= one page: all regions of a page and of the
templates it expands go through the same table) of length 2..4 in which later entries coincide -- in
`complete`, in `inner`, or in both -- with earlier ones, in either order."""
import re

PH = "ZQPHZ"
OPAQUE = ["nowiki", "pre", "math", "source", "syntaxhighlight", "timeline"]
COMPANIONS = ["ref", "poem"]          # non-opaque extension regions handled by the same table (gallery needs a wikidb with get_url)
SIMPLE_BODIES = ["r", "x^2", "''i''", "a b", "{{c}}", "&amp;", "x {{!}} y"]    # parsed bodies: no [[links]] (DictDB has no get_url)

LAYOUTS = {
    # name: (before first region, between regions, after last region)
    "top": ("QA ", " QM ", " QB"),
    "adjacent": ("", "", ""),
    "para": ("QA ", "\n\nQM ", " QB"),
    "list": ("* QA ", "\n* QM ", "\n* QB"),
    "cell": ("{|\n|-\n| QA ", " || QM ", "\n|}"),
    "bold": ("'''QA ", " QM ", " QB''' QC"),
}
PLACES = ["page", "targ", "tnamed", "tbody", "ppage", "ppage"]
# "ppage": the region sits in a page R/k of the wiki database that the article transcludes with <pages index="R" from=k to=k'/>
# (ParseUniq.create_pages: expanded by a SECOND expander with its own marker table, parsed by a nested parse_txt).  Consecutive
# ppage regions share one <pages> range, so the second table holds several regions while the article's table holds the others:
# the running numbers of the two tables overlap (both start at 0).
BASE_DB = {"echo": "({{{1}}})", "c": "CCC", "Template:c": "CCC"}


def closes(tag, body):
    return re.search(r"</%s\s*>" % tag, body, re.I) is not None


def tag_text(tag, attrs, body, variant):
    o, c = tag, tag
    if variant == "upper":
        o, c = tag.upper(), tag.upper()
    elif variant == "mixed":
        o, c = tag.capitalize(), tag.upper()
    elif variant == "space":
        c = tag + " "
    return "<%s%s>%s</%s>" % (o, attrs, body, c)


def resolve(spec):
    """bodies of all regions (None if the spec is cyclic / dangling)."""
    regs = spec["regions"]
    out = [None] * len(regs)

    def go(i, depth):
        if depth > len(regs):
            return None
        r = regs[i]
        if "wrap" not in r:
            return r["body"]
        j = r["wrap"]
        if not (0 <= j < len(regs)) or j == i:
            return None
        b = go(j, depth + 1)
        if b is None:
            return None
        if r["part"] == "inner":
            return b
        rj = regs[j]
        return tag_text(rj["tag"], rj["attrs"], b, rj["variant"])

    for i in range(len(regs)):
        out[i] = go(i, 0)
        if out[i] is None:
            return None
    return out


def valid(spec):
    bodies = resolve(spec)
    if bodies is None or not spec["regions"]:
        return False
    for r, b in zip(spec["regions"], bodies):
        if not b or closes(r["tag"], b) or "\x7f" in b or PH in b:
            return False
        if r["place"] != "page" and not spec["db"]:
            return False
    return True


def region_texts(spec, bodies):
    return [tag_text(r["tag"], r["attrs"], b, r["variant"]) for r, b in zip(spec["regions"], bodies)]


def render(spec, bodies):
    """-> (wikitext, db or None)"""
    pre, sep, post = LAYOUTS[spec["layout"]]
    db = dict(BASE_DB) if spec["db"] else None
    parts = []
    run_start = None          # first page number of the <pages> range being built
    for i, (r, t) in enumerate(zip(spec["regions"], region_texts(spec, bodies))):
        p = r["place"]
        if p == "ppage":
            db["R/%d" % (i + 1)] = db["Page:R/%d" % (i + 1)] = "QX %s QY" % t
            if run_start is None:
                run_start = i + 1
                parts.append(None)
            parts[-1] = '<pages index="R" from=%d to=%d />' % (run_start, i + 1)
            continue
        run_start = None
        if p == "page":
            parts.append(t)
        elif p == "targ":
            parts.append("{{echo|QX %s QY}}" % t)
        elif p == "tnamed":
            parts.append("{{echo|1=QX %s QY}}" % t)
        elif p == "tbody":
            db["tb%d" % i] = "QX %s QY" % t
            parts.append("{{tb%d}}" % i)
        else:
            raise ValueError(p)
    return pre + sep.join(parts) + post, db


def _decode_refs(s):
    def rep(m):
        try:
            t = m.group(1)
            return chr(int(t[2:], 16) if t[:2] in ("#x", "#X") else int(t[1:]) if t[0] == "#" else {"lt": 60, "gt": 62, "amp": 38, "quot": 34}[t])
        except (KeyError, ValueError, OverflowError):
            return m.group(0)
    return re.sub(r"&(#[0-9]+|#[xX][0-9a-fA-F]+|[A-Za-z0-9]+);", rep, s)


def foci(spec):
    return [i for i, r in enumerate(spec["regions"]) if r["tag"] in OPAQUE]


def make_case(cid, spec, focus):
    """tree-oracle case: the page, and the page with the body of region `focus` (only: copies keep the original
    text) replaced by the inert placeholder."""
    bodies = resolve(spec)
    raw, db = render(spec, bodies)
    b2 = list(bodies)
    b2[focus] = PH
    rawp, dbp = render(spec, b2)
    r = spec["regions"][focus]
    # another region may legitimately deliver the focus tag's syntax as text: written literally or with character references
    noleak = any(re.search(r"</?%s\b" % r["tag"], _decode_refs(b), re.I) for i, b in enumerate(bodies) if i != focus)
    return {"id": cid, "tag": r["tag"], "attrs": r["attrs"], "variant": r["variant"], "ctx": "multi:" + spec["layout"],
            "body": bodies[focus], "ph": PH, "raw": raw, "raw_ph": rawp, "db": db, "db_ph": dbp, "noleak": noleak,
            "spec": spec, "focus": focus}


# --------------------------------------------------------------------------- Uniquifier level (by construction)

TIE_SEPS = [" QA ", "\n* ", " ''x'' ", "{{c|", "}}", "|", "\n", "", " ", "[[", "&amp;", "\n\n", "= h ="]


def make_region_tie_case(cid, spec, seps, rand, k0):
    """text = seps[0] R0 seps[1] R1 ... with '<'-free separators: the regions matched by replace_tags are known by
    construction (each R_i starts at its '<' and ends at its first own closing tag, its body contains none)."""
    bodies = resolve(spec)
    texts = region_texts(spec, bodies)
    text = seps[0]
    expect = []
    for i, (r, b, t) in enumerate(zip(spec["regions"], bodies, texts)):
        text += t + seps[i + 1]
        expect.append([r["tag"], r["attrs"], b, b if r["tag"] == "nowiki" else t])
    return {"id": cid, "rand": rand, "k0": k0, "text": text, "probe": "", "expect": expect, "seps": list(seps[:len(texts) + 1]),
            "spec": spec}


# --------------------------------------------------------------------------- generation

def gen_literal(rng, frags, tag, maxfr):
    if tag in COMPANIONS:
        return rng.choice(SIMPLE_BODIES)
    while True:
        b = "".join(rng.choice(frags) for _ in range(rng.randint(1, maxfr)))
        if b and not closes(tag, b) and "\x7f" not in b and PH not in b:
            return b


def gen_page(rng, frags, attrs_list, maxfr, places=True):
    """2..4 regions; every region after the first is, with probability 3/4, related to an earlier one."""
    while True:
        k = rng.choice([2, 2, 2, 3, 3, 4])
        db = rng.random() < 0.5
        regs = []
        for idx in range(k):
            u = rng.random()
            variant = rng.choice(["plain", "plain", "plain", "upper", "mixed", "space"])
            attrs = rng.choice(attrs_list)
            place = "page"
            if places and db and rng.random() < 0.35:
                place = rng.choice(PLACES[1:])
            if idx == 0 or u < 0.25:
                tag = rng.choice(OPAQUE + OPAQUE + COMPANIONS)
                regs.append({"tag": tag, "attrs": attrs, "variant": variant, "place": place, "body": gen_literal(rng, frags, tag, maxfr)})
                continue
            j = rng.randrange(idx)
            base = regs[j]
            if u < 0.65:      # W-wrapped copy of the full source of region j (W = nowiki most of the time)
                tag = "nowiki" if rng.random() < 0.6 else rng.choice(OPAQUE)
                regs.append({"tag": tag, "attrs": attrs, "variant": variant, "place": place, "wrap": j, "part": "complete"})
            elif u < 0.8:     # the same body under another (or the same) tag
                regs.append({"tag": rng.choice(OPAQUE), "attrs": attrs, "variant": variant, "place": place, "wrap": j, "part": "inner"})
            elif u < 0.9:     # the same tag and body, other attributes
                regs.append({"tag": base["tag"], "attrs": rng.choice(attrs_list), "variant": variant, "place": place, "wrap": j, "part": "inner"})
            else:             # the very same region again
                regs.append({"tag": base["tag"], "attrs": base["attrs"], "variant": base["variant"], "place": place, "wrap": j, "part": "inner"})
        # random order (a copy may come before or after its original)
        perm = list(range(k))
        rng.shuffle(perm)                       # perm[new] = old
        inv = {old: new for new, old in enumerate(perm)}
        regs2 = []
        for new in range(k):
            r = dict(regs[perm[new]])
            if "wrap" in r:
                r["wrap"] = inv[r["wrap"]]
            regs2.append(r)
        spec = {"layout": rng.choice(sorted(LAYOUTS)), "db": db, "regions": regs2}
        if valid(spec) and foci(spec):
            return spec


def systematic_pages(bodies_for):
    """every base tag x every wrapper tag != base x both orders x {top without db, list with db, template argument}:
    the wrapper's body is the complete source of the base region; plus the same body under two tags."""
    pages = []
    for bi, base in enumerate(OPAQUE + COMPANIONS):
        for w in OPAQUE:
            for order in (0, 1):
                for li, (layout, db, place) in enumerate([("top", False, "page"), ("list", True, "page"), ("top", True, "targ")]):
                    body = bodies_for(base, bi + li + order)
                    rb = {"tag": base, "attrs": ' lang="c"' if base in ("source", "syntaxhighlight") and li else "", "variant": "plain",
                          "place": "page", "body": body}
                    if w == base:
                        continue
                    rw = {"tag": w, "attrs": "", "variant": "plain", "place": place, "wrap": 1 - order, "part": "complete"}
                    regs = [rw, rb] if order == 0 else [rb, rw]
                    spec = {"layout": layout, "db": db, "regions": regs}
                    if valid(spec):
                        pages.append(spec)
    # a region in the article and a region in a page transcluded through <pages>: every pair of tags (same kind included: same tag
    # name and same running number in the two marker tables), both orders, different bodies; and the nowiki-wrapped copy across the border
    for bi, base in enumerate(OPAQUE):
        for wi, w in enumerate(OPAQUE):
            for order in (0, 1):
                ra = {"tag": base, "attrs": "", "variant": "plain", "place": "page", "body": bodies_for(base, bi + wi)}
                rp = {"tag": w, "attrs": "", "variant": "plain", "place": "ppage", "body": bodies_for(w, bi + wi + 3)}
                spec = {"layout": "para", "db": True, "regions": [ra, rp] if order == 0 else [rp, ra]}
                if valid(spec):
                    pages.append(spec)
        for place_b, place_w in (("page", "ppage"), ("ppage", "page"), ("ppage", "ppage")):
            spec = {"layout": "para", "db": True, "regions": [
                {"tag": base, "attrs": "", "variant": "plain", "place": place_b, "body": bodies_for(base, bi + 1)},
                {"tag": "nowiki", "attrs": "", "variant": "plain", "place": place_w, "wrap": 0, "part": "complete"}]}
            if valid(spec):
                pages.append(spec)
    for bi, base in enumerate(OPAQUE):
        for w in OPAQUE:
            if w == base:
                continue
            spec = {"layout": "top", "db": False, "regions": [
                {"tag": base, "attrs": "", "variant": "plain", "place": "page", "body": bodies_for(base, bi)},
                {"tag": w, "attrs": "", "variant": "plain", "place": "page", "wrap": 0, "part": "inner"}]}
            if valid(spec):
                pages.append(spec)
    return pages


# --------------------------------------------------------------------------- shrinking

def spec_size(spec):
    bodies = resolve(spec)
    raw, db = render(spec, bodies)
    extra = sum((r["variant"] != "plain") + 2 * (r["place"] != "page") for r in spec["regions"]) + (spec["layout"] != "top")
    return len(raw) + 10 * len(spec["regions"]) + (5 + sum(len(v) for v in db.values()) if db else 0) + extra


def _copy(spec):
    return {"layout": spec["layout"], "db": spec["db"], "regions": [dict(r) for r in spec["regions"]]}


def candidates(spec, focus):
    """smaller variants (spec, focus) of a failing page."""
    out = []
    regs = spec["regions"]
    bodies = resolve(spec)
    n = len(regs)
    # drop a region
    for i in range(n):
        if i == focus or n <= 1:
            continue
        s = _copy(spec)
        for r, b in zip(s["regions"], bodies):
            if r.get("wrap") == i:       # its copies become literal
                del r["wrap"], r["part"]
                r["body"] = b
        del s["regions"][i]
        for r in s["regions"]:
            if "wrap" in r and r["wrap"] > i:
                r["wrap"] -= 1
        out.append((s, None if focus is None else focus - (1 if i < focus else 0)))
    # simplify placement / layout / db / attrs / variant
    for i in range(n):
        for key, val in (("place", "page"), ("attrs", ""), ("variant", "plain")):
            if regs[i][key] != val:
                s = _copy(spec)
                s["regions"][i][key] = val
                out.append((s, focus))
    if spec["layout"] != "top":
        s = _copy(spec)
        s["layout"] = "top"
        out.append((s, focus))
    if spec["db"]:
        s = _copy(spec)
        s["db"] = False
        for r in s["regions"]:
            r["place"] = "page"
        out.append((s, focus))
    # literal bodies: delete chunks
    for i in range(n):
        if "wrap" in regs[i]:
            continue
        body = regs[i]["body"]
        seen = set()
        for step in sorted({max(1, len(body) // 2), max(1, len(body) // 4), 2, 1}, reverse=True):
            for k in range(0, len(body), step):
                cand = body[:k] + body[k + step:]
                if cand and cand != body and cand not in seen:
                    seen.add(cand)
                    s = _copy(spec)
                    s["regions"][i]["body"] = cand
                    out.append((s, focus))
        for simple in ("x", "a b"):
            if body != simple and len(body) > len(simple) and simple not in seen:
                s = _copy(spec)
                s["regions"][i]["body"] = simple
                out.append((s, focus))
    res = []
    for s, f in out:
        if valid(s) and (f is None or 0 <= f < len(s["regions"])):
            res.append((s, f))
    return res


def shrink(spec, focus, fails, rounds=14):
    """greedy: each round evaluates all candidates in one batch (`fails(list of (spec, focus)) -> list of bool`)
    and keeps the smallest one that still fails."""
    for _ in range(rounds):
        cands = candidates(spec, focus)
        size = spec_size(spec)
        cands = [(s, f) for s, f in cands if spec_size(s) < size]
        if not cands:
            break
        res = fails(cands)
        failing = [sf for sf, bad in zip(cands, res) if bad]
        if not failing:
            break
        spec, focus = min(failing, key=lambda sf: (spec_size(sf[0]), str(sf[0])))
    return spec, focus
