"""C11 — the real MwApi._do_request / _handle_query_continue / merge_data of the snapshot against SCRIPTED servers
(the ones of coq/C11/ModelContinue.v: `srv_of script`), for the tie with the Coq model of query continuation.

stdin : JSON lines {"id", "merge": [dst, src]}  (merge_data alone on nested values; answer {"id", "merged": value | null})
     or JSON lines {"id", "script": [[q, [[{key: [values]}, cont-or-null], ...]], ...], "order": [q, ...]}
stdout: JSON lines {"id", "answers": [[[key, [values]], ...] | null, ...], "qccount": n, "requests": n}
One MwApi object per line: it makes the queries of "order" one after the other (a fetch: many queries, one client).
Only the HTTP exchange (_send_http_request) is replaced."""
import contextlib
import io
import json
import sys
import traceback

from vt.harness import c11_impl, c11_wiki        # c11_impl: warnings/logging off, conf helpers

sapi = c11_impl.sapi
MAX_REQUESTS = 400


def find_slice(slices, kw):
    """= find_slice of ModelContinue.v"""
    prev = None
    for d, c in slices:
        if (kw is None and prev is None) or (kw is not None and prev is not None and kw == prev):
            return d, c
        prev = c
    return {}, None


class ScriptApi(c11_impl.RealMwApi):
    script = None
    nreq = 0

    def _send_http_request(self, method, url, data, request_headers):
        params = c11_wiki.params_of(method, url, data)
        self.nreq += 1
        if self.nreq > MAX_REQUESTS:
            raise RuntimeError("more than %d requests" % MAX_REQUESTS)
        q = int(params["titles"])
        kw = int(params["xcontinue"]) if "xcontinue" in params else None
        d, c = find_slice(self.script.get(q, []), kw)
        res = {"query": {str(k): list(v) for k, v in d}}
        if c is not None:
            res["query-continue"] = {"x": {"xcontinue": str(c)}}
        return c11_wiki.dumps(res)


def run(case):
    c11_impl.set_conf("fetch", "max_requests_per_second", 0)
    c11_impl.set_conf("http2", "enabled", "false")
    c11_impl.set_conf("http2", "auto_detect", "false")
    api = ScriptApi("http://synth.test/w/api.php")
    api.script = {int(q): [([(int(k), v) for k, v in d], c) for d, c in sl] for q, sl in case["script"]}
    answers = []
    with contextlib.redirect_stdout(io.StringIO()):
        for q in case["order"]:
            r = api.do_request(action="query", titles=str(q))
            answers.append([[int(k), v] for k, v in r.items()])
    return {"id": case["id"], "answers": answers, "qccount": api.qccount, "requests": api.nreq}


def run_merge(case):
    """{"merge": [dst, src]}: the real sapi.merge_data on nested values (atoms = strings, lists of ints, dicts)"""
    dst, src = json.loads(json.dumps(case["merge"]))
    try:
        sapi.merge_data(dst, src)
    except ValueError:
        return {"id": case["id"], "merged": None, "valueerror": True}
    return {"id": case["id"], "merged": dst}


def main():
    for line in sys.stdin:
        line = line.strip()
        if not line:
            continue
        case = json.loads(line)
        try:
            r = run_merge(case) if "merge" in case else run(case)
        except Exception as e:
            r = {"id": case.get("id"), "error": "%s: %s\n%s" % (type(e).__name__, e, traceback.format_exc()[-1200:])}
        sys.stdout.write(json.dumps(r) + "\n")
        sys.stdout.flush()


if __name__ == "__main__":
    main()
