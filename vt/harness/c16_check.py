"""Shared check logic of C16/C17/C18 (parent side): corpus, generation, sharded runs of the harness
(real qs objects + extracted model side by side), aggregation, shrinking, verdict inputs."""
import concurrent.futures
import glob
import hashlib
import json
import os
import queue
import subprocess
import threading
import time

from vt import core
from vt.harness import c16_common as cm

HARNESS = "vt.harness.c16_impl"
PROOF_DIRS = {"C16": None, "C17": ["C16"], "C18": ["C16", "C17"]}


def build():
    return core.ocaml_build("c16", "C16/Extract.v", "driver.ml", extra_ml=["bisim.ml"], dirs=["C16"])


def run_batch(prop, exe, src, histories, trace=False, timeout=2400):
    """Run histories (lists of op strings) through the harness; returns list of result dicts."""
    if not histories:
        return []
    text = "".join(";".join(h) + "\n" for h in histories)
    rc, out = core.run_impl(HARNESS, [prop, exe] + (["--trace"] if trace else []), src=src, input=text, timeout=timeout)
    res = []
    for ln in out.splitlines():
        if ln.startswith("{"):
            res.append(json.loads(ln))
    if any("fatal_harness_error" in r for r in res) or len(res) != len(histories):
        raise RuntimeError("harness failed rc=%s (%d/%d results): %s" % (rc, len(res), len(histories), out[-1500:]))
    return res


def run_sharded(prop, exe, src, histories, shards):
    shards = max(1, min(shards, len(histories) or 1))
    parts = [histories[i::shards] for i in range(shards)]
    with concurrent.futures.ThreadPoolExecutor(shards) as ex:
        outs = list(ex.map(lambda p: run_batch(prop, exe, src, p), parts))
    res = [None] * len(histories)
    for k, part in enumerate(outs):
        for i, r in enumerate(part):
            res[k + i * shards] = r
    return res


def shrink(prop, exe, src, ops, pred):
    def fails(cands):
        return [pred(r) for r in run_batch(prop, exe, src, cands)]
    return cm.ddmin(ops, fails)


def corpus(prop):
    res = []
    for fn in sorted(glob.glob(os.path.join(core.VERIF, "corpus", prop, "*.json"))):
        res.append(cm.split_history(json.load(open(fn))["history"]))
    return res


# Exhaustive part.  tier -> property -> list of (alphabet, depth, budget): `driver.exe enum <alphabet> <depth> 4 <maxstates> budget <budget>`
# explores the model's state graph breadth first modulo symmetry (ocaml/c16/driver.ml, `canon`) and prints one concrete history per
# (canonical state, op) pair; budget = maximal number of pairs printed (0 = all): depths whose pairs do not fit are stride-sampled by the
# driver, which reports enumerated and printed pairs per depth.  Every printed history is replayed on the real code (C18: with a restart
# inserted at every position).  The budgets are what 16 harness processes replay in about 20 minutes (about 1000 histories/s each).
ENUM_PLAN = {
    "quick": {"C16": [("small", 4, 0)], "C17": [("full", 3, 0), ("small", 4, 0)], "C18": [("full", 3, 0)]},
    "thorough": {"C16": [("small", 8, 16000000)],
                 "C17": [("full", 6, 9000000), ("small", 7, 6000000)],
                 "C18": [("full", 5, 0)]},
}
ENUM_MAXSTATES = 50000000


class Enum:
    """One run of the model-side enumerator; .lines() streams the history texts, .finish() returns the parsed final JSON line."""

    def __init__(self, exe, mode, depth, maxjobs=4, maxstates=ENUM_MAXSTATES, budget=0, shard=None):
        args = [exe, "enum", mode, str(depth), str(maxjobs), str(maxstates)]
        if budget:
            args += ["budget", str(budget)]
        if shard:
            args += ["shard", str(shard[0]), str(shard[1])]
        self.t0 = time.time()
        self.p = subprocess.Popen(args, stdout=subprocess.PIPE, stderr=subprocess.PIPE, text=True, bufsize=1 << 20)
        self.err = []
        self.th = threading.Thread(target=lambda: self.err.extend(self.p.stderr.readlines()), daemon=True)
        self.th.start()

    def lines(self):
        for ln in self.p.stdout:
            ln = ln.strip()
            if ln:
                yield ln

    def finish(self):
        rc = self.p.wait()
        self.th.join()
        last = [ln for ln in self.err if ln.startswith("{")]
        if rc != 0 or not last:
            raise RuntimeError("enumerator failed rc=%s: %s" % (rc, "".join(self.err)[-1500:]))
        info = json.loads(last[-1])
        info["bfs_seconds"] = round(time.time() - self.t0, 1)
        return info

    def kill(self):
        self.p.kill()


def enum_histories(exe, mode, depth, maxjobs=4, maxstates=ENUM_MAXSTATES, budget=0):
    """small volumes: all histories at once -> (list of op lists, info)"""
    e = Enum(exe, mode, depth, maxjobs, maxstates, budget)
    hs = [cm.split_history(ln) for ln in e.lines()]
    return hs, e.finish()


def replay_stream(prop, exe, src, histories, shards, absorb, batch=20000):
    """Replay an iterator of histories on `shards` concurrent harness processes in batches; absorb(batch, results) is called
    (serialised) for every finished batch.  Memory stays bounded by shards * batch histories."""
    q = queue.Queue(maxsize=shards)
    lock = threading.Lock()
    errors = []

    def worker():
        while True:
            item = q.get()
            if item is None:
                return
            if errors:
                continue
            try:
                res = run_batch(prop, exe, src, item)
                with lock:
                    absorb(item, res)
            except BaseException as e:   # noqa: B036
                errors.append(e)

    threads = [threading.Thread(target=worker, daemon=True) for _ in range(shards)]
    for t in threads:
        t.start()
    buf = []
    n = 0
    for h in histories:
        buf.append(h)
        n += 1
        if len(buf) >= batch:
            q.put(buf)
            buf = []
            if errors:
                break
    if buf and not errors:
        q.put(buf)
    for _ in threads:
        q.put(None)
    for t in threads:
        t.join()
    if errors:
        raise errors[0]
    return n


def enum_summary(info, expanded):
    st, tr, pr = info["states_per_depth"], info["transitions_per_depth"], info["printed_per_depth"]
    complete = 0
    for d, (t, p) in enumerate(zip(tr, pr), 1):
        if t == p and not info["truncated"]:
            complete = d
        else:
            break
    detail = {"alphabet": info["mode"], "depth": info["depth"], "maxjobs": info["maxjobs"],
              "canonical_states_new_per_depth": [x if x >= 0 else None for x in st], "canonical_states_total": info["states_total"],
              "pairs_enumerated_per_depth": tr, "pairs_replayed_per_depth": pr, "stride_per_depth": info["stride_per_depth"],
              "all_pairs_replayed_to_depth": complete, "histories_replayed": expanded, "truncated": info["truncated"],
              "model_side_seconds": info["bfs_seconds"]}
    text = ("'%s' alphabet: every (canonical model state, op) pair to depth %d enumerated on the model = %d pairs over %d canonical states "
            "(per depth %s); replayed on the real code: all pairs to depth %d%s = %d pairs%s%s" % (
                info["mode"], info["depth"], sum(tr), info["states_total"], tr, complete,
                "".join(", every %dth pair of depth %d (%d of %d)" % (info["stride_per_depth"][d - 1], d, pr[d - 1], tr[d - 1])
                        for d in range(complete + 1, info["depth"] + 1)),
                sum(pr), (" as %d histories (restart inserted at every position)" % expanded) if expanded != sum(pr) else "",
                "; TRUNCATED by the state limit" if info["truncated"] else ""))
    return detail, text


def with_restarts(rng, h, every):
    if every:
        return [h[:k] + ["R"] + h[k:] for k in range(len(h) + 1)]
    k = rng.randint(0, len(h))
    h = h[:k] + ["R"] + h[k:]
    if rng.random() < 0.3:
        # a second stop/start: the second session starts from a state file (Main.loaddb) instead of an empty queue
        k = rng.randint(0, len(h))
        h = h[:k] + ["R"] + h[k:]
    return [h]


def check(run, prop):
    run.rule = ("histories over the op alphabet {Add(channel,priority,id?,timeout?), StartPull(conn,channels), RunLoop, "
                "Finish(conn,id,result,error in {None,'','boom','timeout','killed'}), Kill, Tick(dt), Disconnect, Choice(k), Wait, "
                "WaitL(conn,[2-3 ids]) = rpc_qwait with several ids (finished/unfinished/unknown/repeated ids mixed), "
                "Info, SetInfo, Stats, Advance(dt) = the clock moves and timed waits expire but the handletimeouts sweep has not run, "
                "Drop(ids) = rpc_qdrop%s}: "
                "corpus, then random histories of length 3..12 over 2-3 channels, 3-4 worker connections, "
                "auto and client ids; 8%% of them from the drop family (1-3 clients wait on one job that is dropped; the id is killed "
                "and re-added, finished, timed out or swept by the watchdog while they wait; noise ops in between), 6%% from the re-add family, "
                "4-10%% from the multi-id wait family (1-2 clients wait on lists of 2-3 jobs; while they are blocked ids are killed+re-added, dropped+"
                "collected by another client, forgotten by the watchdog; jobs finish in any order with or without loop turns in between); "
                "EVERY history ends with a drain: all connections disconnect, two loop turns, then a fresh worker pulls all channels until it "
                "blocks - every accepted unfinished job must come out exactly once (black-box conservation, monitors bb_lost/bb_handout, from RPC "
                "return values only: rpc_qadd ids, rpc_qinfo records probed after every op, rpc_qpull/rpc_qwait records); plus a breadth-first exploration of the model's state graph over the property's "
                "bounded alphabet (2 channels, <=4 jobs, 3 worker connections + client connections that kill/finish/wait; 'small' = C16's ops, "
                "'full' adds timeouts, failing finishes, Wait by two clients, Stats, Drop, pulls on both channels), states identified modulo "
                "permutation of connections / of the two channels / of client names and time shift (ocaml/c16/driver.ml `canon`; self test "
                "`driver.exe enumcheck`), Choice only when >=2 pullers are blocked, one concrete history per (canonical model state, op) pair; "
                "depths and numbers replayed: coverage.exhaustive_part. distinct = distinct "
                "history text; non-trivial = the run contains a delivery and a RunLoop, a died connection or a restart"
                % (", Watchdog = dropdead, R = pickle round trip of the db" if prop == "C18" else ""))
    run.trusted = ["Coq 8.16.1 kernel (coqc); vm_compute in the Examples only",
                   "extraction (ExtrOcamlBasic directives only) + ocaml/c16/driver.ml (printing, parsing, enum alphabet)",
                   "hand-written model coq/C16/Model.v (+ coq/C16/ModelWaitL.v: multi-id waits; the line protocol of the driver runs ModelWaitL.xstep for every op) "
                   "of jobs.py/qserve.py/rpcserver connection life cycle; tie = differential run after every op",
                   "gevent (hub FIFO callback order, AsyncResult/Event/kill semantics): exercised, modelled only as the explicit FIFO s_hub",
                   "harness vt/harness/c16_impl.py: in-hub driver, snapshot/canonicalisation code (internals read through adapters; an unreadable internal breaks "
                   "the tie on it = obligation white-box-snapshot-readable, the monitors keep running), AsyncResult subclass that records its owner, "
                   "qs.jobs.random replaced by an object that answers EVERY kind of draw (choice/randrange/randint/sample/shuffle/...) from the history's Choice ops, time.time patched in qs.jobs, "
                   "Event subclass whose wait(timeout=t) expires on the virtual clock (wait() without timeout is gevent's own)",
                   "pickle (C18)"]
    run.assumptions = ["client supplied job ids are strings (an integer id given by a client can collide with a server-chosen serial: outside the alphabet)",
                       "priorities are non-negative integers; one request at a time per connection",
                       "the socket/JSON layer of rpcserver.py is represented by: disconnect = kill(block=False) of the handler greenlet, then shutdown() in its finally",
                       "rpc_qdrop (Drop) is outside the properties' alphabets but modelled, tied and generated for all three (since b6f8314 waitjobs forgets a dropped "
                       "job's id only while it still names the waited-for object; the Coq theorems quantify over the full alphabet incl. Drop/Watchdog); "
                       "dropdead (Watchdog) is generated for C18 and inside the drop family",
                       "Wait on a finished job returns at once also while the finish notifier of earlier waiters is pending (a8ac510; before, such a late client was never "
                       "released when the earlier waiters' connections dropped first: A 0 0 - -;W 1 a1;D 1;K 7 a1;W 5 a1;L - found by this check's drop family, now generated again "
                       "and in corpus/C17/late-waiter-after-dropped-waiter.json)"]
    src = core.snapshot(need_ext=False)
    run.check_proofs(prop, dirs=PROOF_DIRS[prop])
    exe = build()
    rng = run.rng
    quick = run.tier == "quick"
    hs = corpus(prop)
    ncorpus = len(hs)
    nrand = 40000 if quick else 200000
    if prop == "C18":
        nrand = 20000 if quick else 40000
    shards = 6 if quick else 16
    kinds = {}
    lens = {}
    disagreements = []
    viols = {}
    nviol = {}
    tot = {"n": 0, "diff": 0, "herr": 0}
    herr = []
    unreadable = {}

    def keep_smallest(lst, cap=2000):
        if len(lst) > 2 * cap:
            lst.sort(key=lambda x: (len(x[0]), x[0]))
            del lst[cap:]

    def absorb(batch, results, sample=False):
        for h, r in zip(batch, results):
            k = r["kinds"]
            for a, b in k.items():
                kinds[a] = kinds.get(a, 0) + b
            lens[len(h)] = lens.get(len(h), 0) + 1
            tot["n"] += 1
            if "harness_error" in r:
                tot["herr"] += 1
                if len(herr) < 3:
                    herr.append("%s :: %s" % (";".join(h), r["harness_error"][-600:]))
            for f in r.get("unreadable", ()):
                unreadable[f] = unreadable.get(f, 0) + 1
            nontrivial = k.get("out:deliver", 0) > 0 and (k.get("L", 0) > 0 or k.get("out:died", 0) > 0 or k.get("R", 0) > 0)
            run.count(";".join(h), nontrivial=nontrivial)
            if nontrivial and sample:
                run.sample(";".join(h))
            if r["diff"]:
                tot["diff"] += 1
                disagreements.append((h, r["diff"]))
                keep_smallest(disagreements)
            for v in r["viol"]:
                if v["mon"] in cm.MONITORS[prop]:
                    nviol[v["mon"]] = nviol.get(v["mon"], 0) + 1
                    viols.setdefault(v["mon"], []).append((h, v))
                    keep_smallest(viols[v["mon"]])

    # exhaustive part, small volumes (quick tier): replayed together with the corpus and the random histories
    plan = ENUM_PLAN[run.tier][prop]
    enum_details = []
    enum_texts = []

    def variants(h):
        return with_restarts(rng, h, True) if prop == "C18" else [h]

    if quick:
        for mode, depth, budget in plan:
            eh, info = enum_histories(exe, mode, depth, budget=budget)
            eh = [v for h in eh for v in variants(h)]
            d, t = enum_summary(info, len(eh))
            enum_details.append(d)
            enum_texts.append(t)
            hs += eh
    for _ in range(nrand):
        h = cm.gen_history(rng, maxlen=12, prop=prop)
        if prop == "C18":
            hs += with_restarts(rng, h, every=not quick and rng.random() < 0.3)
        else:
            hs.append(h)
    absorb(hs, run_sharded(prop, exe, src, hs, shards), sample=True)
    nfixed = len(hs)
    del hs
    if not quick:
        # exhaustive part, thorough tier: the enumerator streams into `shards` harness processes
        for mode, depth, budget in plan:
            e = Enum(exe, mode, depth, budget=budget)
            try:
                n = replay_stream(prop, exe, src, (v for ln in e.lines() for v in variants(cm.split_history(ln))), shards, absorb)
            except BaseException:
                e.kill()
                raise
            d, t = enum_summary(e.finish(), n)
            enum_details.append(d)
            enum_texts.append(t)
    nhist = tot["n"]
    disagreements.sort(key=lambda x: (len(x[0]), x[0]))
    shown = []
    for h, d in disagreements[:3]:
        field = d.split(":")[1][:40] if ":" in d else d[:40]
        m = shrink(prop, exe, src, h, lambda r, f=field: bool(r["diff"]) and f in r["diff"])
        d2 = run_batch(prop, exe, src, [m])[0]["diff"]
        shown.append("%s :: %s" % (";".join(m), d2))
    shown += ["%s :: %s" % (";".join(h), d) for h, d in disagreements[3:20]]
    if tot["diff"] > len(shown):
        shown.append("(%d histories with a disagreement in all)" % tot["diff"])
    run.tie("queue model vs real workq+QPlugin under gevent: return values and canonical snapshot after every op", nhist, shown)
    # fail closed, but only AFTER the monitors have run on every history: internals the property does not mention that changed their
    # representation break the tie on them (and the verdict), not the search for a concrete failing history
    run.obligation("harness-ran-every-history", tot["herr"] == 0,
                   "%d of %d histories could not be run to the end by the harness%s" % (tot["herr"], nhist, "".join(" | " + x for x in herr)))
    run.obligation("white-box-snapshot-readable", not unreadable,
                   "internals of workq/QPlugin the tie reads (id2job, channel2q, _waiters, timeoutq, _channel2count, running_jobs as {id: job}) "
                   "that could not be read on this code, with the number of histories: %s; the tie skipped them, the monitors ran" % (
                       json.dumps(unreadable, sort_keys=True) if unreadable else "none"))
    for mon, lst in sorted(viols.items()):
        lst.sort(key=lambda x: (len(x[0]), x[0]))
        h, v = lst[0]
        m = shrink(prop, exe, src, h, lambda r, mon=mon: any(x["mon"] == mon for x in r["viol"]))
        r = run_batch(prop, exe, src, [m])[0]
        msg = [x["msg"] for x in r["viol"] if x["mon"] == mon][0]
        hist = ";".join(m)
        run.hit(fingerprint="%s:%s:%s" % (prop, mon, hist), what="%s (history: %s; %d of %d histories)" % (msg, hist, nviol[mon], nhist),
                replay={"history": hist, "mon": mon, "msg": msg})
        if os.environ.get("VERIF_SAVE_CORPUS") == "1":
            fn = os.path.join(core.VERIF, "corpus", prop, "auto-%s.json" % hashlib.sha256(hist.encode()).hexdigest()[:10])
            json.dump({"history": hist, "note": "%s: %s" % (mon, msg)}, open(fn, "w"), indent=1)
    if prop == "C18":
        # the restart bisimulation (proved in Coq: C18_restart_bisim) checked exhaustively on the EXTRACTED model to a bound:
        # guards the statement's definitions (requeue_all, obs) against the executable model on every run
        from vt.harness import c16_bisim
        d1, d2 = (2, 2) if quick else (4, 2)
        bs = c16_bisim.run_bisim(exe, d1, d2, maxjobs=3, shards=shards)
        run.obligation("restart-bisim-on-extracted-model", bs["ok"],
                       "start states %(start_states)d (<= %(d1)d ops), continuations <= %(d2)d ops: %(steps_compared)d step pairs compared, "
                       "%(distinct_pairs)d distinct state pairs, %(mismatches)d mismatches, %(stats_only_differences)d differing only in Stats counters" % bs
                       + ("; " + " | ".join(bs["examples"]) if bs["examples"] else ""))
        run.coverage["restart_bisim_model_check"] = {k: v for k, v in bs.items() if k != "examples"}
    run.coverage["exhaustive"] = False
    run.coverage["input_distribution"] = {"corpus": ncorpus, "random_histories": nrand, "histories": nhist,
                                          "histories_corpus_random%s" % ("_enumerated" if quick else ""): nfixed,
                                          "length_histogram": {str(k): v for k, v in sorted(lens.items())},
                                          "op_and_outcome_kinds": dict(sorted(kinds.items()))}
    if enum_texts:
        run.coverage["exhaustive_part"] = ("breadth-first exploration of the model's state graph modulo symmetry (connection ids, the two channels, "
                                           "client names, time shift; unreachable finished job objects dropped); one concrete history per "
                                           "(canonical state, op) pair, replayed on the real code against the model and the monitors. "
                                           + " | ".join(enum_texts))
        run.coverage["exhaustive_detail"] = enum_details


def replay(obj, prop):
    src = core.snapshot(need_ext=False)
    exe = build()
    rp = obj["replay"]
    if "history" not in rp:
        print(json.dumps(rp, indent=1))
        return 1
    h = cm.split_history(rp["history"])
    r = run_batch(prop, exe, src, [h], trace=True)[0]
    for k, st in enumerate(r.get("steps", [])):
        print("%2d %-22s -> %s" % (k, st["op"], json.dumps(st["impl"]["out"])))
        print("     impl : %s" % json.dumps({f: st["impl"]["snap"][f] for f in ("ids", "queues", "waiters", "conns", "cnt")}))
    for v in r["viol"]:
        print("MONITOR %s at op %d: %s" % (v["mon"], v["at"], v["msg"]))
    if r["diff"]:
        print("MODEL/IMPL:", r["diff"])
    bad = any(v["mon"] == rp.get("mon") for v in r["viol"])
    print("REPRODUCED" if bad else "not reproduced")
    return 1 if bad else 0
