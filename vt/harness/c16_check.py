"""Shared check logic of C16/C17/C18 (parent side): corpus, generation, sharded runs of the harness
(real qs objects + extracted model side by side), aggregation, shrinking, verdict inputs."""
import concurrent.futures
import glob
import hashlib
import json
import os
import subprocess

from vt import core
from vt.harness import c16_common as cm

HARNESS = "vt.harness.c16_impl"
PROOF_DIRS = {"C16": None, "C17": ["C16"], "C18": ["C16", "C17"]}


def build():
    return core.ocaml_build("c16", "C16/Extract.v", "driver.ml", dirs=["C16"])


def run_batch(prop, exe, src, histories, trace=False, timeout=2400):
    """Run histories (lists of op strings) through the harness; returns list of result dicts."""
    if not histories:
        return []
    text = "".join(";".join(h) + "\n" for h in histories)
    rc, out = core.run_impl(HARNESS, [prop, exe] + (["--trace"] if trace else []), src=src, input=text, timeout=timeout)
    res = []
    for ln in out.splitlines():
        if ln.startswith("{"):
            res.append(json.loads(ln))
    if any("harness_error" in r for r in res) or len(res) != len(histories):
        raise RuntimeError("harness failed rc=%s (%d/%d results): %s" % (rc, len(res), len(histories), out[-1500:]))
    return res


def run_sharded(prop, exe, src, histories, shards):
    shards = max(1, min(shards, len(histories) or 1))
    parts = [histories[i::shards] for i in range(shards)]
    with concurrent.futures.ThreadPoolExecutor(shards) as ex:
        outs = list(ex.map(lambda p: run_batch(prop, exe, src, p), parts))
    res = [None] * len(histories)
    for k, part in enumerate(outs):
        for i, r in enumerate(part):
            res[k + i * shards] = r
    return res


def shrink(prop, exe, src, ops, pred):
    def fails(cands):
        return [pred(r) for r in run_batch(prop, exe, src, cands)]
    return cm.ddmin(ops, fails)


def corpus(prop):
    res = []
    for fn in sorted(glob.glob(os.path.join(core.VERIF, "corpus", prop, "*.json"))):
        res.append(cm.split_history(json.load(open(fn))["history"]))
    return res


def enum_histories(exe, mode, depth, maxjobs, maxstates, limit):
    p = subprocess.run([exe, "enum", mode, str(depth), str(maxjobs), str(maxstates)], capture_output=True, text=True, timeout=1500)
    lines = [ln for ln in p.stdout.splitlines() if ln]
    info = p.stderr.strip().splitlines()
    return [cm.split_history(ln) for ln in lines[:limit]], len(lines), (info[-1] if info else "")


def with_restarts(rng, h, every):
    if every:
        return [h[:k] + ["R"] + h[k:] for k in range(len(h) + 1)]
    k = rng.randint(0, len(h))
    return [h[:k] + ["R"] + h[k:]]


def check(run, prop):
    run.rule = ("histories over the op alphabet {Add(channel,priority,id?,timeout?), StartPull(conn,channels), RunLoop, "
                "Finish(conn,id,result,error in {None,'','boom','timeout','killed'}), Kill, Tick(dt), Disconnect, Choice(k), Wait, "
                "Info, SetInfo, Stats, Advance(dt) = the clock moves and timed waits expire but the handletimeouts sweep has not run, "
                "Drop(ids) = rpc_qdrop%s}: "
                "corpus, then random histories of length 3..12 over 2-3 channels, 3-4 worker connections, "
                "auto and client ids; 8%% of them from the drop family (1-3 clients wait on one job that is dropped; the id is killed "
                "and re-added, finished, timed out or swept by the watchdog while they wait; noise ops in between); thorough adds a breadth-first exploration of the model's state graph over the property's "
                "bounded alphabet (2 channels, <=4 jobs, 3 workers, symmetry-reduced: workers/ids/channels in first-use order; "
                "Choice only when >=2 pullers are blocked), one history per (distinct model state, op) pair. distinct = distinct "
                "history text; non-trivial = the run contains a delivery and a RunLoop, a died connection or a restart"
                % (", Watchdog = dropdead, R = pickle round trip of the db" if prop == "C18" else ""))
    run.trusted = ["Coq 8.16.1 kernel (coqc); vm_compute in the Examples only",
                   "extraction (ExtrOcamlBasic directives only) + ocaml/c16/driver.ml (printing, parsing, enum alphabet)",
                   "hand-written model coq/C16/Model.v of jobs.py/qserve.py/rpcserver connection life cycle; tie = differential run after every op",
                   "gevent (hub FIFO callback order, AsyncResult/Event/kill semantics): exercised, modelled only as the explicit FIFO s_hub",
                   "harness vt/harness/c16_impl.py: in-hub driver, snapshot/canonicalisation code, AsyncResult subclass that records its owner, patched random.choice/time.time in qs.jobs, "
                   "Event subclass whose wait(timeout=t) expires on the virtual clock (wait() without timeout is gevent's own)",
                   "pickle (C18)"]
    run.assumptions = ["client supplied job ids are strings (an integer id given by a client can collide with a server-chosen serial: outside the alphabet)",
                       "priorities are non-negative integers; one request at a time per connection",
                       "the socket/JSON layer of rpcserver.py is represented by: disconnect = kill(block=False) of the handler greenlet, then shutdown() in its finally",
                       "rpc_qdrop (Drop) is outside the properties' alphabets but modelled, tied and generated for all three (since b6f8314 waitjobs forgets a dropped "
                       "job's id only while it still names the waited-for object; the Coq theorems quantify over the full alphabet incl. Drop/Watchdog); "
                       "dropdead (Watchdog) is generated for C18 and inside the drop family",
                       "Wait is not generated on a connection whose disconnect is pending (gevent corner: a client that starts waiting on an already-set event while "
                       "its notifier is pending is released one loop turn later if an earlier waiter died first; history D 1;A 1 1 - 0;W 1 a1;K 5 a1;W 5 a1;L; model says same turn)"]
    src = core.snapshot(need_ext=False)
    run.check_proofs(prop, dirs=PROOF_DIRS[prop])
    exe = build()
    rng = run.rng
    quick = run.tier == "quick"
    hs = corpus(prop)
    ncorpus = len(hs)
    nrand = 40000 if quick else 200000
    if prop == "C18":
        nrand = 20000 if quick else 40000
    enum_info = None
    if not quick:
        mode, depth = ("small", 5) if prop == "C16" else ("full", 4)
        eh, total, info = enum_histories(exe, mode, depth, 4, 400000, 1200000)
        enum_info = {"alphabet": mode, "depth": depth, "transitions": total, "replayed": len(eh), "last_progress_line": info}
        if prop == "C18":
            eh = eh[:: max(1, len(eh) // 30000)]
            eh = [v for h in eh for v in with_restarts(rng, h, True)]
        hs += eh
    for _ in range(nrand):
        h = cm.gen_history(rng, maxlen=12, prop=prop)
        if prop == "C18":
            hs += with_restarts(rng, h, every=not quick and rng.random() < 0.3)
        else:
            hs.append(h)
    res = run_sharded(prop, exe, src, hs, 6 if quick else 16)
    kinds = {}
    lens = {}
    disagreements = []
    viols = {}
    for h, r in zip(hs, res):
        k = r["kinds"]
        for a, b in k.items():
            kinds[a] = kinds.get(a, 0) + b
        lens[len(h)] = lens.get(len(h), 0) + 1
        nontrivial = k.get("out:deliver", 0) > 0 and (k.get("L", 0) > 0 or k.get("out:died", 0) > 0 or k.get("R", 0) > 0)
        run.count(";".join(h), nontrivial=nontrivial)
        if nontrivial:
            run.sample(";".join(h))
        if r["diff"]:
            disagreements.append((h, r["diff"]))
        for v in r["viol"]:
            if v["mon"] in cm.MONITORS[prop]:
                viols.setdefault(v["mon"], []).append((h, v))
    shown = []
    for h, d in disagreements[:3]:
        field = d.split(":")[1][:40] if ":" in d else d[:40]
        m = shrink(prop, exe, src, h, lambda r, f=field: bool(r["diff"]) and f in r["diff"])
        d2 = run_batch(prop, exe, src, [m])[0]["diff"]
        shown.append("%s :: %s" % (";".join(m), d2))
    shown += ["%s :: %s" % (";".join(h), d) for h, d in disagreements[3:20]]
    run.tie("queue model vs real workq+QPlugin under gevent: return values and canonical snapshot after every op", len(hs), shown)
    for mon, lst in sorted(viols.items()):
        lst.sort(key=lambda x: len(x[0]))
        h, v = lst[0]
        m = shrink(prop, exe, src, h, lambda r, mon=mon: any(x["mon"] == mon for x in r["viol"]))
        r = run_batch(prop, exe, src, [m])[0]
        msg = [x["msg"] for x in r["viol"] if x["mon"] == mon][0]
        hist = ";".join(m)
        run.hit(fingerprint="%s:%s:%s" % (prop, mon, hist), what="%s (history: %s; %d of %d histories)" % (msg, hist, len(lst), len(hs)),
                replay={"history": hist, "mon": mon, "msg": msg})
        if os.environ.get("VERIF_SAVE_CORPUS") == "1":
            fn = os.path.join(core.VERIF, "corpus", prop, "auto-%s.json" % hashlib.sha256(hist.encode()).hexdigest()[:10])
            json.dump({"history": hist, "note": "%s: %s" % (mon, msg)}, open(fn, "w"), indent=1)
    run.coverage["exhaustive"] = False
    run.coverage["input_distribution"] = {"corpus": ncorpus, "histories": len(hs), "length_histogram": {str(k): v for k, v in sorted(lens.items())},
                                          "op_and_outcome_kinds": dict(sorted(kinds.items()))}
    if enum_info:
        run.coverage["exhaustive_part"] = ("every (reachable model state, op) pair to depth %(depth)d over the bounded '%(alphabet)s' alphabet: "
                                           "%(transitions)d transitions, %(replayed)d replayed on the real code; %(last_progress_line)s" % enum_info)


def replay(obj, prop):
    src = core.snapshot(need_ext=False)
    exe = build()
    rp = obj["replay"]
    if "history" not in rp:
        print(json.dumps(rp, indent=1))
        return 1
    h = cm.split_history(rp["history"])
    r = run_batch(prop, exe, src, [h], trace=True)[0]
    for k, st in enumerate(r.get("steps", [])):
        print("%2d %-22s -> %s" % (k, st["op"], json.dumps(st["impl"]["out"])))
        print("     impl : %s" % json.dumps({f: st["impl"]["snap"][f] for f in ("ids", "queues", "waiters", "conns", "cnt")}))
    for v in r["viol"]:
        print("MONITOR %s at op %d: %s" % (v["mon"], v["at"], v["msg"]))
    if r["diff"]:
        print("MODEL/IMPL:", r["diff"])
    bad = any(v["mon"] == rp.get("mon") for v in r["viol"])
    print("REPRODUCED" if bad else "not reproduced")
    return 1 if bad else 0
