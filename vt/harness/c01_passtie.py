"""C01: tie between the REAL index-walking passes of mwlib.parser.refine.core (ParseSections, ParseLines,
ParseParagraphs, ParseSingleQuote, ParseUrls, ParsePreformatted) and the loop models of coq/C01/Passes.v and
coq/C01/PassesPre.v extracted to ocaml/c01p.

`tie(run, src)` generates abstract token lists per pass (exhaustive up to a small length over a per-pass alphabet +
random longer lists drawn with run.rng), runs the real pass (vt/harness/c01_passes.py) and the extracted model
(ocaml/c01p/driver.exe, fuel = the bound of the termination theorem) on each and compares
  * the resulting token tree (canonical s-expression) or the exception kind,
  * the number of executed loop iterations,
and checks real iterations < fuel bound.  Not run by itself by ./check: vt/props/c01.py calls tie()."""
import itertools
import json
import subprocess
import time
from concurrent.futures import ThreadPoolExecutor

from vt import core

PASSES = [("S", "ParseSections"), ("L", "ParseLines"), ("P", "ParseParagraphs"), ("Q", "ParseSingleQuote"),
          ("U", "ParseUrls"), ("F", "ParsePreformatted"),
          ("C", "TableCellParser"), ("R", "TableRowParser"), ("T", "TableParser")]

ALPHABET = {
    "S": ["o", "s1", "s2", "s3", "e1", "e2", "e3", "n"],
    "L": ["o", "n", "b", "i*", "i#", "i:", "i;", "i**", "i*#", "i;:", "i:*", "c:", ":", "/ul", "/ol"],
    "P": ["o", "b", "B", "n"],
    "Q": ["o", "n", "q2", "q3", "q4", "q5"],
    "U": ["o", "u", "]", "2", "n"],
    "F": ["o", "w", "n", "B", "Dd", "Ds"],
    "C": ["o", "|1", "!1", "|2", "td", "/td", "|", "+"],
    "R": ["o", "n", "r", "tr", "/tr", "|1", "td", "|"],
    "T": ["o", "n", "{", "tb", "}", "r", "|1", "+"],
}
# extra symbols only used by the random lists
EXTRA = {
    "S": ["s4", "e4", "s6", "e5"],
    "L": ["i", "i##", "i#*", "i*:", "i;;", "i::", "i***", "i*#*", "c", "c::", "i:;"],
    "P": [],
    "Q": ["q6", "q7"],            # not q1: the tokenizer never emits it and compute_path raises ValueError on it
    "U": [],
    "F": ["F", "Dq", "Dt", "Dl"],
    "C": ["!2", "|!", "th", "/th", "[[", "n", "_"],
    "R": ["b", "!1", "|2", "!2", "|!", "th", "/td", "/th", "+", "[[", "_"],
    "T": ["b", "_", "/table", "tr", "/tr", "!1", "|2", "td", "/td", "|", "[[", "ref"],
}
# hand-picked lists: prefixes outside ":*#;" (AttributeError ~ PAttr), empty prefixes, "=" counts of 0, ...
FIXED = {
    "S": ["s0 o e0", "s1 e0 o", "e1 s1 s1", "s2 o e1 s1 o e3 s2", "s1 o e1 s2 o e2 s3 o e3 s2 o e2 s1 o e1 o"],
    "L": ["ix o n", "i o n i* n", "i*x o n", "ix", "c o n", "i* o : o n i; o : o n", "i; : : n", "i;* o : n i;* : n",
          "i* o /ul o /ul n", "i# /ul /ol n", "i* o n ix o n", "i*x o n i* o n o",
          # a one-line definition item followed by lines it swallows: they go into the description node (core.py:540-543)
          "i; o : o n i;* o n", "i*; o : o n i*;* o n i* o n", "i; o : o n i;; o : o n i: o n", "i; o : o n i;* o n i;# o n i; o n"],
    "P": ["b", "B b B"],
    "Q": ["q2", "q2 n q3", "q3 q2 q5 q2 q3", "q3 q5 n q3 q5 n q3 q5 n q3 q5 n q3 q5 n q3 q5 n"],
    "U": ["2 u 2 2", "u u ] ]"],
    # " a\n b\n" (merged into one node), a pre-existing preformatted node before a " " line, tags that end a " " line or not
    "C": ["|1 o | o |2 o !1 o !2 o |! o", "td o /td o th o /th o", "|1 [[ | o", "|1 o + o | o", "!1 o |2 o td o |2 o", "/td |1 /td /td",
          "|1 + + | o |2 + [[ | o"],
    "R": ["r o n |1 o |2 o n r n |1 o", "tr td o /td /tr o", "|1 o r o n |1 o /tr o", "r o |1 o", "r n r n r", "tr o n td o tr /tr /tr",
          "|1 o |2 o /tr r o n !1 o"],
    "T": ["{ o n r n |1 o n }", "{ o }", "{ }", "{ { } }", "{ n + o | o n r n |1 o n }", "{ n + [[ o | o n }", "{ n + o | o | o n r }",
          "tb tr td o /td /tr /table", "{ {", "{ o { o n", "} { n _ + ref o n r }", "{ n _ n + o r n }", "{ n o + o n }", "{ + o",
          "{ n + o n } { n + o n", "tb + o n /table"],
    "F": ["w o n w o n", "F w o n", "F o w o n", "w F n", "w w n n", "w Dq n w Dt n w Dl n w Dd n w Ds n", "n w n n w n w",
          "w o n o w o n w o n B w o n"],
}
# exhaustive up to this length / number of random lists / (min, max) random length
SIZES = {
    "quick": {"S": (4, 250, (5, 60)), "L": (3, 250, (4, 60)), "P": (6, 200, (7, 60)), "Q": (4, 200, (5, 50)),
              "U": (5, 250, (6, 60)), "F": (4, 250, (5, 60)),
              "C": (3, 250, (4, 60)), "R": (3, 250, (4, 60)), "T": (3, 250, (4, 60))},
    "thorough": {"S": (5, 6000, (6, 2000)), "L": (4, 6000, (5, 1500)), "P": (8, 4000, (9, 2000)),
                 "Q": (6, 4000, (7, 300)), "U": (7, 6000, (8, 2000)), "F": (6, 6000, (7, 2000)),
                 "C": (5, 6000, (6, 1500)), "R": (5, 6000, (6, 1500)), "T": (5, 6000, (6, 1500))},
}
EXC_KIND = {"IndexError": "PIndex", "ValueError": "PValue", "AttributeError": "PAttr", "TypeError": "PType"}
FUEL = {"S": lambda n: 2 * n + 1, "L": lambda n: 4 * n + 1, "P": lambda n: 2 * n + 1, "Q": lambda n: 2 * n + 1,
        "U": lambda n: 3 * n + 1, "F": lambda n: n + 1,
        "C": lambda n: n + 1, "R": lambda n: n + 1, "T": lambda n: 2 * n + 1}   # mirrors X_fuel of Passes*.v; only used when the model raises


def build():
    return core.ocaml_build("c01p", "C01/ExtractPasses.v", "driver.ml", dirs=["C01"])


def gen_cases(k, tier, rng):
    exh, nrand, (lo, hi) = SIZES["thorough" if tier == "thorough" else "quick"][k]
    alpha = ALPHABET[k]
    cases = []
    for n in range(exh + 1):
        for t in itertools.product(alpha, repeat=n):
            cases.append(list(t))
    cases.extend(c.split() for c in FIXED[k])
    full = alpha + EXTRA[k]
    for j in range(nrand):
        # half of the lists short-ish, the rest up to `hi`; a fresh weight vector per list
        top = hi if j % 2 else min(hi, lo + 40)
        n = rng.randint(lo, top)
        pool = full if rng.random() < 0.5 else alpha
        w = [rng.choice((0, 1, 1, 2, 4, 8)) for _ in pool]
        if not any(w):
            w[0] = 1
        if k == "Q" and "n" in pool:      # keep the lines short enough for compute_path
            w[pool.index("n")] = max(w[pool.index("n")], max(w) // 4, 1)
        cases.append(rng.choices(pool, weights=w, k=n))
    return cases


def run_real(k, cases, src, timeout=1800):
    inp = "".join(json.dumps({"id": i, "k": k, "toks": c}) + "\n" for i, c in enumerate(cases))
    rc, out = core.run_impl("vt.harness.c01_passes", [], src=src, input=inp, timeout=timeout)
    res = {}
    for line in out.splitlines():
        if line.startswith("{"):
            try:
                r = json.loads(line)
                res[r["id"]] = r
            except ValueError:
                pass
    if rc != 0 or len(res) != len(cases):
        raise RuntimeError("c01_passes harness failed (rc=%s, %d/%d results): %s" % (rc, len(res), len(cases), out[-1500:]))
    return [res[i] for i in range(len(cases))]


def run_model(exe, k, cases, reals, fuel="-", timeout=1800):
    lines = "".join("%s %s %s|%s\n" % (k, fuel, " ".join(c), (r.get("cp") or "") if k == "Q" else "")
                    for c, r in zip(cases, reals))
    p = subprocess.run([exe], input=lines, stdout=subprocess.PIPE, stderr=subprocess.PIPE, text=True, timeout=timeout)
    out = p.stdout.split("\n")
    if out and out[-1] == "":
        out.pop()
    if p.returncode != 0 or len(out) != len(cases):
        raise RuntimeError("c01p driver failed (rc=%s, %d/%d lines): %s" % (p.returncode, len(out), len(cases), p.stderr[-1500:]))
    res = []
    for ln in out:
        if ln.startswith("OK "):
            f = ln.split(" ", 3)
            res.append({"out": f[3] if len(f) > 3 else "", "iters": int(f[1]), "fuel": int(f[2])})
        elif ln.startswith("RAISE "):
            res.append({"raise": ln[6:].strip()})
        else:
            res.append({"err": ln})
    return res


def short(s, n=300):
    return s if len(s) <= n else s[:n] + "...[%d chars]" % len(s)


def compare(real, model):
    """None if real and model agree, else a short description"""
    if "err" in model:
        return "model driver error %s" % model["err"]
    if "exc" in real:
        kind = EXC_KIND.get(real["exc"].split(":")[0])
        if "raise" in model and model["raise"] == kind:
            return None
        return "real raises %s ; model %s" % (short(real["exc"], 120),
                                               ("RAISE " + model["raise"]) if "raise" in model else "OK " + short(model["out"]))
    if "raise" in model:
        return "real OK %s ; model RAISE %s" % (short(real["out"]), model["raise"])
    if real["out"] != model["out"]:
        return "real %s ; model %s" % (short(real["out"]), short(model["out"]))
    if "iters" in real and real["iters"] != model["iters"]:
        return "same result but iterations differ: real %d ; model %d" % (real["iters"], model["iters"])
    return None


def run_chunk(exe, k, cases, src):
    reals = run_real(k, cases, src)
    models = run_model(exe, k, cases, reals)
    return reals, models


def minimise(exe, k, toks, src, rounds=60):
    """greedy chunk removal keeping `real and model disagree`; every round is one batch of both sides"""
    cur = list(toks)
    chunk = max(1, len(cur) // 2)
    for _ in range(rounds):
        if len(cur) <= 1:
            break
        cands = []
        for a in range(0, len(cur), chunk):
            c = cur[:a] + cur[a + chunk:]
            if len(c) < len(cur):
                cands.append(c)
        try:
            reals, models = run_chunk(exe, k, cands, src)
        except RuntimeError:
            break
        hit = None
        for c, r, m in zip(cands, reals, models):
            if compare(r, m) is not None:
                hit = c
                break
        if hit is not None:
            cur = hit
            chunk = max(1, min(chunk, len(cur) // 2))
        elif chunk == 1:
            break
        else:
            chunk = max(1, chunk // 2)
    return cur


def tie_pass(run, exe, k, name, src, pool, nworkers):
    t0 = time.time()
    cases = gen_cases(k, run.tier, run.rng)
    # balance the chunks: longest first, dealt round-robin
    order = sorted(range(len(cases)), key=lambda i: -len(cases[i]))
    nchunks = max(1, min(nworkers, len(cases) // 200 or 1))
    chunks = [[] for _ in range(nchunks)]
    for j, i in enumerate(order):
        chunks[j % nchunks].append(i)
    futs = [pool.submit(run_chunk, exe, k, [cases[i] for i in ch], src) for ch in chunks]
    real = [None] * len(cases)
    model = [None] * len(cases)
    failed = []
    for ch, f in zip(chunks, futs):
        try:
            rs, ms = f.result()
        except (RuntimeError, subprocess.TimeoutExpired) as e:      # harness/driver died or timed out (a hang)
            failed.append("%s: a batch of %d cases did not complete: %s" % (k, len(ch), short(str(e), 300)))
            rs = [{"exc": "BatchFailed: see first disagreement"}] * len(ch)
            ms = [{"err": "batch failed"}] * len(ch)
        for i, r, m in zip(ch, rs, ms):
            real[i], model[i] = r, m
    dis = []
    real_exc = []
    worst = (0.0, None)
    fuel_ok = True
    fuel_bad = []
    for c, r, m in zip(cases, real, model):
        d = compare(r, m)
        if d is not None:
            dis.append((c, d))
        if "exc" in r:
            real_exc.append({"toks": " ".join(c), "exc": r["exc"]})
            if r["exc"].startswith("LoopBudgetExceeded"):
                fuel_ok = False
                fuel_bad.append("%s: real loop did not end (%s)" % (short(" ".join(c), 120), r["exc"]))
        if "iters" in r:
            fuel = m["fuel"] if "fuel" in m else FUEL[k](len(c))
            ratio = r["iters"] / float(fuel)
            if ratio > worst[0]:
                worst = (ratio, "%d iterations, fuel %d, %d tokens%s" % (
                    r["iters"], fuel, len(c), (": " + " ".join(c)) if len(c) <= 12 else ""))
            if not r["iters"] < fuel:
                fuel_ok = False
                fuel_bad.append("%s: %d iterations >= fuel %d" % (short(" ".join(c), 120), r["iters"], fuel))
        if m.get("raise") == "PFuel":
            fuel_ok = False
            fuel_bad.append("%s: model out of fuel" % short(" ".join(c), 120))
    dis.sort(key=lambda x: len(x[0]))
    # disagreements found only on long random lists: shrink the shortest one
    if dis and not failed and len(dis[0][0]) > 8:
        small = minimise(exe, k, dis[0][0], src)
        if len(small) < len(dis[0][0]):
            rs, ms = run_chunk(exe, k, [small], src)
            d = compare(rs[0], ms[0])
            if d is not None:
                dis.insert(0, (small, "(minimised) " + d))
    dstr = failed + ["%s [%s] %s" % (k, " ".join(c) if len(c) <= 40 else short(" ".join(c), 160), d) for c, d in dis[:10]]
    run.tie("%s: real pass on abstract token lists vs extracted loop model (result structure; iterations <= fuel)" % name,
            len(cases), dstr)
    detail = "max real iterations / fuel = %.3f (%s)" % worst if worst[1] else "no case with an iteration count"
    if fuel_bad:
        detail += "; FAILED: " + "; ".join(fuel_bad[:5])
    run.obligation("%s: real loop iterations <= fuel bound of the termination theorem" % name, fuel_ok, detail)
    exh, nrand, (lo, hi) = SIZES["thorough" if run.tier == "thorough" else "quick"][k]
    return {"cases": len(cases), "exhaustive_up_to": exh, "random_lists": nrand, "random_length": [lo, hi],
            "max_tokens": max(len(c) for c in cases), "disagreements": len(dis), "disagreement_list": dstr,
            "real_exceptions": real_exc[:50], "n_real_exceptions": len(real_exc),
            "model_raises": sum(1 for m in model if "raise" in m),
            "max_iters_ratio": round(worst[0], 4), "worst_case": worst[1], "fuel_ok": fuel_ok,
            "wall": round(time.time() - t0, 2)}


def tie(run, src, passes=None):
    exe = build()
    nworkers = 16 if run.tier == "thorough" else 6
    res = {}
    with ThreadPoolExecutor(max_workers=nworkers) as pool:
        for k, name in PASSES:
            if passes and k not in passes:
                continue
            res[name] = tie_pass(run, exe, k, name, src, pool, nworkers)
    return res


if __name__ == "__main__":
    import random
    import sys

    class FakeRun:
        def __init__(self, tier):
            self.rng = random.Random(0)
            self.tier = tier

        def tie(self, name, n, dis):
            print("TIE  %s | cases=%d disagreements=%d" % (name, n, len(dis)))
            for d in dis:
                print("     " + d)

        def obligation(self, name, ok, detail):
            print("OBL  %s | %s | %s" % (name, "ok" if ok else "FAILED", detail))

    tier = sys.argv[1] if len(sys.argv) > 1 else "quick"
    t0 = time.time()
    out = tie(FakeRun(tier), core.snapshot(), passes=sys.argv[2] if len(sys.argv) > 2 else None)
    for nm, r in out.items():
        print(nm, json.dumps({x: y for x, y in r.items() if x != "disagreement_list"}))
    print("total wall %.1fs" % (time.time() - t0))
