"""C04 / #expr worker on the real code (snapshot via PYTHONPATH).
stdin: JSON lines {"id", "text"}.  stdout: JSON lines
  {"id", "tokens": expr.tokenize(text) as [[operand, operator], ...],
         "raw": value of Expr().parse_expr(text): {"t": "int"|"float"|"str"|"exc"|<other type>, "v": ...},
         "expanded": Expander("{{#expr:" + text + "}}").expandTemplates()}"""
import json
import logging
import sys

logging.disable(logging.CRITICAL)
import mwlib.parser.expander  # noqa: E402,F401  (import order matters)
from mwlib.parser import expr  # noqa: E402
from mwlib.parser.templ.evaluate import Expander  # noqa: E402
from mwlib.parser.templ.misc import DictDB  # noqa: E402

try:
    import qs.log
    qs.log.root_logger.disabled = True
except Exception:
    pass

DB = DictDB({})


def show(v):
    if type(v) is int:
        return {"t": "int", "v": str(v)}
    if type(v) is float:
        return {"t": "float", "v": v.hex()}
    if type(v) is str:
        return {"t": "str", "v": v}
    return {"t": type(v).__name__, "v": repr(v)}


def one(case):
    text = case["text"]
    res = {"id": case["id"]}
    try:
        res["tokens"] = [[a if isinstance(a, str) else repr(a), b if isinstance(b, str) else repr(b)] for a, b in expr.tokenize(text)]
    except Exception as e:
        res["tokens"] = "%s: %s" % (type(e).__name__, e)
    try:
        res["raw"] = show(expr.Expr().parse_expr(text))
    except Exception as e:
        res["raw"] = {"t": "exc", "v": "%s: %s" % (type(e).__name__, e)}
    try:
        res["expanded"] = Expander("{{#expr:" + text + "}}", pagename="p", wikidb=DB).expandTemplates()
    except Exception as e:
        res["expanded"] = None
        res["expand_exc"] = "%s: %s" % (type(e).__name__, e)
    return res


def main():
    out = sys.stdout
    for line in sys.stdin:
        line = line.strip()
        if not line:
            continue
        case = json.loads(line)
        try:
            res = one(case)
        except Exception as e:  # harness problem
            res = {"id": case.get("id"), "harness_error": "%s: %s" % (type(e).__name__, e)}
        out.write(json.dumps(res) + "\n")
    out.flush()


if __name__ == "__main__":
    main()
