#!/bin/bash
# usage: seedtest.sh <seed-dir containing patch.diff demo.py> <PROP> [tier] [--skip-tests]
# Confirms: demo passes on clean copy, fails with patch, test suite passes with patch; then runs ./check PROP on the patched copy.
sd="$(readlink -f "$1")"; prop="$2"; tier="${3:-quick}"
D=/var/tmp/seedrun-$$
trap 'rm -rf "$D"' EXIT
rsync -a --exclude .git /repo/ "$D/"
cd "$D"
PYTHONPATH=$D/src timeout 300 /venv/bin/python "$sd/demo.py" >/dev/null 2>&1; echo "demo on clean: exit $?"
if ! patch -p1 --quiet < "$sd/patch.diff"; then echo "PATCH DOES NOT APPLY"; exit 2; fi
if grep -qE '^\+\+\+ .*\.(pyx|cc|re)' "$sd/patch.diff"; then VERIF_REPO=$D /venv/bin/python /verif/vt/rebuild_repo_ext.py 2>&1 | tail -1; fi
PYTHONPATH=$D/src timeout 300 /venv/bin/python "$sd/demo.py" >/dev/null 2>&1; echo "demo with patch: exit $?"
if [ "$4" != "--skip-tests" ]; then
  PYTHONPATH=$D/src /venv/bin/python -m pytest -q -p no:cacheprovider --timeout=900 --continue-on-collection-errors tests 2>&1 | tail -1
fi
cd /verif && VERIF_REPO=$D ./check "$prop" --tier "$tier" 2>/dev/null | grep -E "VIOLATION|KNOWN-FINDING|obligations" | head -8
