#!/bin/bash
# usage: mkworktree.sh <dir>   — scratch git worktree of /repo HEAD with the built extensions copied in
set -e
d="$1"
git -C /repo worktree add --detach "$d" HEAD >/dev/null 2>&1
(cd /repo && find src -name "*.so" | while read f; do cp "$f" "$d/$f"; done)
echo "$d ready; run tests with: cd $d && PYTHONPATH=$d/src /venv/bin/python -m pytest -q -p no:cacheprovider tests/..."
