#!/bin/bash
# usage: runall.sh [tier] [props...]  — runs the claimed checks one after another, prints a summary
tier="${1:-quick}"; shift
cd /verif
props="$@"
[ -z "$props" ] && props=$(python3 -c "import json;print(' '.join(c['property_id'] for c in json.load(open('MANIFEST.json'))['checks']))")
for p in $props; do
  s=$(date +%s)
  out=$(./check $p --tier $tier 2>/var/tmp/runall-$p.err); rc=$?
  e=$(( $(date +%s) - s ))
  echo "== $p rc=$rc ${e}s"; echo "$out" | grep -E "VIOLATION|KNOWN-FINDING|obligations" | head -6
done
