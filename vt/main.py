"""./check entry point."""
import argparse
import importlib
import json
import os
import sys
import traceback

from vt import core


def setup():
    """MANIFEST.setup_cmd: build everything that can be built ahead of time."""
    os.makedirs(core.CACHE, exist_ok=True)
    ok = True
    # regenerate every Gen_*.v so that the whole project builds
    src = core.snapshot(need_ext=True)
    for mod in sorted(os.listdir(os.path.join(core.VERIF, "vt", "props"))):
        if not mod.startswith("c") or not mod.endswith(".py"):
            continue
        m = importlib.import_module("vt.props." + mod[:-3])
        if hasattr(m, "generate"):
            try:
                m.generate(src)
            except Exception:
                traceback.print_exc()
                ok = False
    hits = core.coq_gate()
    if hits:
        print("coq gate hits:", hits)
        ok = False
    files = core.coq_project_files()
    good, out = core.coq_make([f[:-2] + ".vo" for f in files], timeout=5400)
    if not good:
        print(out[-6000:])
        ok = False
    for mod in sorted(os.listdir(os.path.join(core.VERIF, "vt", "props"))):
        if not mod.startswith("c") or not mod.endswith(".py"):
            continue
        m = importlib.import_module("vt.props." + mod[:-3])
        if hasattr(m, "build"):
            try:
                m.build()
            except Exception:
                traceback.print_exc()
                ok = False
    print("setup", "ok" if ok else "FAILED")
    return 0 if ok else 1


def main():
    ap = argparse.ArgumentParser()
    ap.add_argument("prop", nargs="?")
    ap.add_argument("--tier", default=os.environ.get("VERIF_TIER", "quick"), choices=["quick", "thorough"])
    ap.add_argument("--replay")
    ap.add_argument("--setup", action="store_true")
    a = ap.parse_args()
    if a.setup:
        sys.exit(setup())
    if not a.prop:
        ap.error("property id required")
    prop = a.prop.upper()
    mod = importlib.import_module("vt.props." + prop.lower())
    if a.replay:
        obj = json.load(open(a.replay))
        sys.exit(mod.replay(obj))
    run = core.Run(prop, a.tier, level=getattr(mod, "LEVEL", "proof"))
    try:
        mod.check(run)
    except Exception as e:
        traceback.print_exc()
        run.broken.append(("harness", prop, "%s: %s" % (type(e).__name__, e)))
        run.obligations.append(("harness-completed", False, str(e)[:300]))
    sys.exit(run.finish())


if __name__ == "__main__":
    main()
