"""Shared machinery of the /verif checks: snapshot of /repo, Coq/OCaml builds,
verdict logic, evidence writer.  Runs under /venv/bin/python (which has mwlib's deps)."""
import atexit
import contextlib
import fcntl
import hashlib
import json
import os
import random
import re
import shutil
import subprocess
import sys
import time

VERIF = os.path.dirname(os.path.dirname(os.path.abspath(__file__)))
REPO = os.environ.get("VERIF_REPO", "/repo")
COQ = os.path.join(VERIF, "coq")
OCAML = os.path.join(VERIF, "ocaml")
CACHE = os.path.join(VERIF, ".cache")
# runs against a scratch copy of the repository (seeded-change evaluation) must not overwrite the evidence of /repo
EVIDENCE = (os.path.join(VERIF, "evidence") if os.path.realpath(REPO) == "/repo"
            else os.path.join("/var/tmp", "verif-alt-evidence"))
REPLAYS = os.path.join(VERIF, "replays")
PY = "/venv/bin/python"
NPROC = os.cpu_count() or 4

EXT_SOURCES = [
    "mwlib/parser/token/_uscan.cc",
    "mwlib/parser/refine/_core.pyx",
    "mwlib/parser/templ/node.pyx",
    "mwlib/parser/templ/nodes.pyx",
    "mwlib/parser/templ/evaluate.pyx",
]

GATE_RE = re.compile(
    r"\b(Admitted|admit|Axiom|Axioms|Parameter|Parameters|Conjecture|Hypothesis|Variable|"
    r"Admit Obligations|Unset Guard Checking|bypass_check|type-in-type|impredicative-set|"
    r"Unset Positivity Checking|Unset Universe Checking|native_compute)\b"
)

# Axioms of the standard library that a property theorem may depend on (named in DESIGN.md §5).
ALLOWED_AXIOMS = {
    "functional_extensionality_dep",
    "FunctionalExtensionality.functional_extensionality_dep",
}


def log(*a):
    print(*a, file=sys.stderr, flush=True)


def sh(cmd, timeout=600, cwd=None, env=None, input=None):
    """Run a command, return (rc, stdout+stderr)."""
    try:
        p = subprocess.run(cmd, shell=isinstance(cmd, str), cwd=cwd, env=env, input=input,
                           stdout=subprocess.PIPE, stderr=subprocess.STDOUT, timeout=timeout,
                           text=True, errors="replace")
        return p.returncode, p.stdout
    except subprocess.TimeoutExpired as e:
        out = e.stdout or ""
        if isinstance(out, bytes):
            out = out.decode("utf8", "replace")
        return 124, out + "\n[timeout after %ss]" % timeout


@contextlib.contextmanager
def flock(name):
    os.makedirs(CACHE, exist_ok=True)
    f = open(os.path.join(CACHE, name + ".lock"), "w")
    fcntl.flock(f, fcntl.LOCK_EX)
    try:
        yield
    finally:
        fcntl.flock(f, fcntl.LOCK_UN)
        f.close()


# --------------------------------------------------------------------------- snapshot

_scratch = None


def scratch():
    """Per-process scratch directory outside /repo and /verif; removed on exit."""
    global _scratch
    if _scratch is None:
        base = os.environ.get("VERIF_SCRATCH_BASE", "/var/tmp")
        _scratch = os.path.join(base, "verif-%d" % os.getpid())
        shutil.rmtree(_scratch, ignore_errors=True)
        os.makedirs(_scratch)
        atexit.register(shutil.rmtree, _scratch, True)
    return _scratch


def file_sha(path):
    h = hashlib.sha256()
    with open(path, "rb") as f:
        h.update(f.read())
    return h.hexdigest()


def snapshot(need_ext=True):
    """Copy /repo/src (working tree) to scratch; optionally rebuild the C/Cython extensions
    from their *current* sources (cached by content hash).  Returns the src path."""
    dst = os.path.join(scratch(), "src")
    if os.path.isdir(dst):
        return dst
    rc, out = sh(["rsync", "-a", "--exclude", "__pycache__", "--exclude", "*.so", "--exclude", "*.egg-info",
                  os.path.join(REPO, "src") + "/", dst + "/"], timeout=120)
    if rc != 0:
        raise RuntimeError("snapshot failed: " + out)
    if need_ext:
        build_ext(dst)
    return dst


def build_ext(src):
    h = hashlib.sha256()
    for rel in EXT_SOURCES:
        p = os.path.join(src, rel)
        h.update(rel.encode())
        h.update(open(p, "rb").read() if os.path.exists(p) else b"<missing>")
    # pxd / included files
    for root, _d, files in os.walk(os.path.join(src, "mwlib", "parser")):
        for fn in sorted(files):
            if fn.endswith((".pxd", ".pxi", ".h")):
                h.update(open(os.path.join(root, fn), "rb").read())
    key = h.hexdigest()[:20]
    cdir = os.path.join(CACHE, "ext-" + key)
    with flock("ext"):
        if not os.path.exists(os.path.join(cdir, "OK")):
            shutil.rmtree(cdir, ignore_errors=True)
            bdir = os.path.join(scratch(), "extbuild")
            shutil.rmtree(bdir, ignore_errors=True)
            os.makedirs(bdir)
            sh(["rsync", "-a", src + "/", bdir + "/src/"])
            setup = r'''
import sys
from pathlib import Path
from setuptools import Extension, setup
from Cython.Build import cythonize
exts=[Extension("mwlib.parser.token._uscan", sources=["src/mwlib/parser/token/_uscan.cc"])]
for path in Path("src/mwlib").rglob("**/*.pyx"):
    name="mwlib."+path.relative_to("src/mwlib").with_suffix("").as_posix().replace("/", ".")
    exts.append(Extension(name, sources=[str(path)], extra_compile_args=["-Wno-unreachable-code-fallthrough","-O1"]))
setup(name="mwlibext", ext_modules=cythonize(exts, force=True, quiet=True,
      compiler_directives={"language_level":3,"boundscheck":False,"wraparound":False}),
      package_dir={"":"src"}, script_args=["build_ext","--inplace","-j","8"])
'''
            open(os.path.join(bdir, "setup_ext.py"), "w").write(setup)
            t0 = time.time()
            rc, out = sh([PY, "setup_ext.py"], cwd=bdir, timeout=900)
            if rc != 0:
                raise RuntimeError("extension build failed:\n" + out[-4000:])
            os.makedirs(cdir)
            for root, _d, files in os.walk(os.path.join(bdir, "src")):
                for fn in files:
                    if fn.endswith(".so"):
                        rel = os.path.relpath(os.path.join(root, fn), os.path.join(bdir, "src"))
                        os.makedirs(os.path.dirname(os.path.join(cdir, rel)), exist_ok=True)
                        shutil.copy2(os.path.join(root, fn), os.path.join(cdir, rel))
            open(os.path.join(cdir, "OK"), "w").write("built in %.1fs\n" % (time.time() - t0))
            shutil.rmtree(bdir, ignore_errors=True)
            log("[ext] built extensions %s in %.1fs" % (key, time.time() - t0))
            # keep the cache small: drop all but the 3 newest builds
            olds = sorted((d for d in os.listdir(CACHE) if d.startswith("ext-")),
                          key=lambda d: os.path.getmtime(os.path.join(CACHE, d)))
            for d in olds[:-3]:
                shutil.rmtree(os.path.join(CACHE, d), ignore_errors=True)
    sh(["rsync", "-a", cdir + "/mwlib/", os.path.join(src, "mwlib") + "/"])


def impl_env(src=None, extra=None):
    env = dict(os.environ)
    env["PYTHONPATH"] = (src or snapshot()) + os.pathsep + VERIF
    env["PYTHONHASHSEED"] = "0"
    env["PYTHONDONTWRITEBYTECODE"] = "1"
    env.pop("PYTHONSTARTUP", None)
    if extra:
        env.update(extra)
    return env


def run_impl(module, args=(), src=None, input=None, timeout=900, extra_env=None):
    """Run `python -m <module>` (a harness living in /verif) against the snapshot of the
    implementation.  Returns (rc, output)."""
    return sh([PY, "-m", module] + list(args), cwd=VERIF, env=impl_env(src, extra_env),
              input=input, timeout=timeout)


# --------------------------------------------------------------------------- Coq

def coq_gate(paths=None):
    """Textual gate: no Admitted/Axiom/... anywhere in the development. Returns list of hits."""
    hits = []
    for root, _d, files in os.walk(COQ):
        for fn in files:
            if not fn.endswith(".v"):
                continue
            p = os.path.join(root, fn)
            if paths and not any(p.startswith(os.path.join(COQ, q)) for q in paths):
                continue
            txt = open(p, encoding="utf8").read()
            txt_nc = strip_coq_comments(txt)
            in_section = 0
            for ln, line in enumerate(txt_nc.split("\n"), 1):
                s = line.strip()
                if re.match(r"Section\b", s):
                    in_section += 1
                if re.match(r"End\b", s) and in_section:
                    in_section -= 1
                for m in GATE_RE.finditer(line):
                    w = m.group(1)
                    if w in ("Hypothesis", "Variable") and in_section:
                        continue
                    hits.append("%s:%d: %s" % (os.path.relpath(p, COQ), ln, w))
    return hits


def strip_coq_comments(txt):
    out = []
    depth = 0
    i = 0
    n = len(txt)
    while i < n:
        if txt.startswith("(*", i):
            depth += 1
            i += 2
        elif txt.startswith("*)", i) and depth:
            depth -= 1
            i += 2
        else:
            if depth == 0:
                out.append(txt[i])
            elif txt[i] == "\n":
                out.append("\n")
            i += 1
    return "".join(out)


def write_if_changed(path, content):
    os.makedirs(os.path.dirname(path), exist_ok=True)
    try:
        if open(path, encoding="utf8").read() == content:
            return False
    except OSError:
        pass
    tmp = path + ".tmp%d" % os.getpid()
    with open(tmp, "w", encoding="utf8") as f:
        f.write(content)
    os.replace(tmp, path)
    return True


COQ_HEADER = ("-Q . MW\n-arg -w -arg -notation-overridden,-deprecated-hint-without-locality,"
              "-deprecated-instance-without-locality\n")


def coq_project_files(dirs=None):
    """All .v files of the development (or of the given sub-directories), sorted.  Scratch
    files (cases_*.v) are not part of the project."""
    res = []
    for d in sorted(os.listdir(COQ)):
        full = os.path.join(COQ, d)
        if not os.path.isdir(full) or (dirs is not None and d not in dirs):
            continue
        for root, _dd, files in os.walk(full):
            for fn in sorted(files):
                if fn.endswith(".v") and not fn.startswith("cases_") and not fn.startswith("."):
                    res.append(os.path.relpath(os.path.join(root, fn), COQ))
    return sorted(res)


def coq_make(targets, dirs=None, timeout=3000, jobs=None):
    """Full .vo build (coq_makefile + make, never -vos) of the given targets.  `dirs` restricts the
    generated _CoqProject to Common + those sub-directories so that concurrent checks of different
    properties do not share a Makefile.  Returns (ok, output)."""
    if dirs is None:
        name, proj, mk = "all", "_CoqProject", "Makefile"
        files = coq_project_files()
    else:
        dirs = sorted(set(["Common"] + list(dirs)))
        name = "_".join(d for d in dirs if d != "Common") or "Common"
        proj, mk = "_CoqProject." + name, "Makefile." + name
        files = coq_project_files(dirs)
    with flock("coq-" + name):
        changed = write_if_changed(os.path.join(COQ, proj), COQ_HEADER + "\n".join(files) + "\n")
        if changed or not os.path.exists(os.path.join(COQ, mk)):
            rc, out = sh("coq_makefile -f %s -o %s" % (proj, mk), cwd=COQ, timeout=120)
            if rc != 0:
                return False, out
        rc, out = sh(["timeout", str(timeout), "make", "-f", mk, "-j%d" % (jobs or NPROC), "-k"] + list(targets),
                     cwd=COQ, timeout=timeout + 30)
        return rc == 0, out


def coqc_file(relpath, timeout=600):
    """Compile one file directly (always re-checks it), returning (ok, output).  Used for
    Properties.v so that its `Print Assumptions` output is captured on every run."""
    rc, out = sh(["timeout", str(timeout), "coqc", "-q", "-Q", ".", "MW", "-w",
                  "-notation-overridden,-deprecated-hint-without-locality,-deprecated-instance-without-locality", relpath],
                 cwd=COQ, timeout=timeout + 30)
    return rc == 0, out


def parse_assumptions(out):
    """Parse the output of a file whose only printing commands are `Print Assumptions`.
    Returns list of (closed: bool, axioms: [names])."""
    res = []
    blocks = re.split(r"(?m)^(?=Closed under the global context|Axioms:)", out)
    for b in blocks:
        if b.startswith("Closed under the global context"):
            res.append((True, []))
        elif b.startswith("Axioms:"):
            names = re.findall(r"(?m)^([A-Za-z_][\w.']*)\s*:", b[len("Axioms:"):])
            res.append((False, names))
    return res


def theorems_in(relpath):
    txt = strip_coq_comments(open(os.path.join(COQ, relpath), encoding="utf8").read())
    return re.findall(r"(?m)^\s*(?:Theorem|Lemma|Corollary|Example)\s+([\w']+)", txt)


# --------------------------------------------------------------------------- OCaml (extracted models)

def ocaml_build(name, extract_v, driver_ml, extra_ml=(), dirs=None):
    """Build /verif/ocaml/<name>/driver.exe from the extraction produced by compiling
    coq/<extract_v> (which must `Extraction "<name>_model.ml"` into ocaml/<name>/) and the
    hand-written driver.  Cached on content hashes.  Returns path of the executable."""
    odir = os.path.join(OCAML, name)
    exe = os.path.join(odir, "driver.exe")
    with flock("ocaml-" + name):
        ok, out = coq_make([extract_v[:-2] + ".vo"], dirs=dirs or [extract_v.split("/")[0]])
        if not ok:
            raise RuntimeError("coq build of %s failed:\n%s" % (extract_v, out[-3000:]))
        model_ml = os.path.join(odir, name + "_model.ml")
        if not os.path.exists(model_ml):
            # the .vo was up to date but the extracted file is missing (fresh checkout): force
            ok, out = coqc_file(extract_v)
            if not ok or not os.path.exists(model_ml):
                raise RuntimeError("extraction of %s failed:\n%s" % (extract_v, out[-3000:]))
        srcs = [model_ml] + [os.path.join(odir, m) for m in extra_ml] + [os.path.join(odir, driver_ml)]
        key = hashlib.sha256(b"".join(open(s, "rb").read() for s in srcs)).hexdigest()
        stamp = os.path.join(odir, "driver.stamp")
        if os.path.exists(exe) and os.path.exists(stamp) and open(stamp).read() == key:
            return exe
        mli = model_ml + "i"
        cmd = ["ocamlfind", "ocamlopt", "-O3" if False else "-unsafe", "-inline", "100", "-w", "-a",
               "-I", odir] + ([mli] if os.path.exists(mli) else []) + srcs + ["-o", exe]
        rc, out = sh(cmd, cwd=odir, timeout=600)
        if rc != 0:
            raise RuntimeError("ocaml build failed:\n" + out[-3000:])
        open(stamp, "w").write(key)
    return exe


# --------------------------------------------------------------------------- verdict + evidence

class Run:
    """Collects obligations, correspondence results and monitor hits of one check run and
    turns them into the exit status, VIOLATION/KNOWN-FINDING lines and the evidence file."""

    def __init__(self, prop, tier, level="proof"):
        self.prop = prop
        self.tier = tier
        self.level = level
        self.seed = int(os.environ.get("VERIF_SEED", "0") or 0)
        self.rng = random.Random(self.seed * 1000003 + int(prop[1:]))
        self.t0 = time.time()
        self.obligations = []      # (name, ok, detail)
        self.ties = []             # (name, cases, disagreements[list])
        self.hits = []             # dict(fingerprint, what, replay_obj)
        self.broken = []           # (kind, name, detail)
        self.coverage = {}
        self.samples = []
        self.assumptions = []
        self.trusted = []
        self.evaluations = 0
        self.nontrivial = set()
        self.rule = ""
        self.checker_cmds = []
        self.axioms_seen = set()
        self.notes = {}

    # -- proofs
    def check_proofs(self, prop_dir, gen=None, extra_targets=(), dirs=None):
        """Rebuild the property's Coq files and re-check its Properties.v.  `gen` is an
        optional callable regenerating Gen_*.v (fail-closed: exception = broken obligation)."""
        if gen is not None:
            try:
                gen()
            except Exception as e:  # translator is fail-closed
                self.broken.append(("translator", prop_dir, "%s: %s" % (type(e).__name__, e)))
                self.obligations.append(("translator:" + prop_dir, False, str(e)))
                return False
            self.obligations.append(("translator:" + prop_dir, True, ""))
        dirs = list(dirs or []) + [prop_dir]
        hits = coq_gate(paths=["Common"] + dirs)
        self.obligations.append(("gate:no-admitted-no-axiom", not hits, "; ".join(hits[:5])))
        if hits:
            self.broken.append(("gate", "coq", "; ".join(hits[:10])))
        files = [f for f in coq_project_files([prop_dir]) if not f.endswith("Properties.v")]
        targets = [f[:-2] + ".vo" for f in files] + list(extra_targets)
        cmd = "cd coq && coq_makefile -f _CoqProject.%s -o Makefile.X && make -f Makefile.X -j%d %s" % (prop_dir, NPROC, " ".join(targets))
        self.checker_cmds.append(cmd)
        ok, out = coq_make(targets, dirs=dirs)
        if not ok:
            failing = re.findall(r'File "\./([^"]+)", line (\d+)', out)
            detail = "; ".join("%s:%s" % f for f in failing[:5]) or out[-500:]
            self.broken.append(("proof", prop_dir, "make failed: " + detail))
            err = re.search(r"(?s)(File \"[^\n]*\n.*?Error:.*?)(?:\nmake|\Z)", out)
            self.notes["coq_error"] = (err.group(1) if err else out[-1500:])[:3000]
        self.obligations.append(("coq-build:" + prop_dir, ok, "" if ok else "make failed"))
        all_ok = ok and not hits
        props = [f for f in coq_project_files([prop_dir]) if f.endswith("Properties.v")]
        for pf in props:
            thms = theorems_in(pf)
            if not ok:
                for t in thms:
                    self.obligations.append((t, False, "dependencies did not build"))
                continue
            self.checker_cmds.append("cd coq && coqc -q -Q . MW " + pf)
            pok, pout = coqc_file(pf)
            ass = parse_assumptions(pout)
            if not pok:
                self.broken.append(("proof", pf, pout[-1500:]))
                self.notes["coq_error"] = pout[-3000:]
                all_ok = False
                for t in thms:
                    self.obligations.append((t, False, "Properties.v failed to compile"))
                continue
            if len(ass) < len(thms):
                self.broken.append(("proof", pf, "fewer Print Assumptions (%d) than theorems (%d)" % (len(ass), len(thms))))
                all_ok = False
            if self.tier == "thorough" and os.environ.get("VERIF_NO_COQCHK") != "1":
                mod = "MW." + pf[:-2].replace("/", ".")
                rc, cout = sh(["timeout", "3000", "coqchk", "-silent", "-o", "-Q", ".", "MW", mod], cwd=COQ, timeout=3100)
                m = re.search(r"\* Axioms:(.*?)\n\s*\n\* Constants/Inductives relying on type-in-type:(.*?)\n\s*\n\* Constants/Inductives relying on unsafe"
                              r" \(co\)fixpoints:(.*?)\n\s*\n\* Inductives whose positivity is assumed:(.*?)(?:\n\s*\n|\Z)", cout, re.S)
                parts = [x.strip() for x in m.groups()] if m else None
                clean = rc == 0 and parts is not None and all(
                    x == "<none>" or (i == 0 and all(a.strip().split(".")[-1] in {y.split(".")[-1] for y in ALLOWED_AXIOMS}
                                                     for a in x.split("\n") if a.strip()))
                    for i, x in enumerate(parts))
                self.obligation("coqchk:" + pf, clean, "rc=%s %s" % (rc, (parts if parts else cout[-300:])))
                self.coverage.setdefault("coqchk", {})[pf] = {"rc": rc, "axioms": parts[0] if parts else None,
                                                              "type_in_type": parts[1] if parts else None,
                                                              "unsafe_fixpoints": parts[2] if parts else None,
                                                              "assumed_positivity": parts[3] if parts else None}
                self.checker_cmds.append("cd coq && coqchk -silent -o -Q . MW " + mod)
            for i, t in enumerate(thms):
                if i < len(ass):
                    closed, axs = ass[i]
                    bad = [a for a in axs if a.split(".")[-1] not in {x.split(".")[-1] for x in ALLOWED_AXIOMS}]
                    self.axioms_seen.update(axs)
                    self.obligations.append((t, not bad, "closed" if closed else "axioms: " + ", ".join(axs)))
                    if bad:
                        self.broken.append(("axiom", t, "depends on " + ", ".join(bad)))
                        all_ok = False
                else:
                    self.obligations.append((t, False, "no Print Assumptions output"))
        return all_ok

    def obligation(self, name, ok, detail=""):
        self.obligations.append((name, bool(ok), detail))
        if not ok:
            self.broken.append(("obligation", name, detail))

    # -- correspondence
    def tie(self, name, cases, disagreements):
        self.ties.append((name, cases, list(disagreements)))
        for d in list(disagreements)[:20]:
            self.broken.append(("correspondence", name, d))

    # -- exploration bookkeeping
    def count(self, case_key, nontrivial=True):
        self.evaluations += 1
        if nontrivial:
            self.nontrivial.add(hashlib.blake2b(repr(case_key).encode("utf8", "replace"), digest_size=8).digest())

    def sample(self, s, limit=6):
        if len(self.samples) < limit:
            self.samples.append(s)

    # -- monitor hits (concrete failing inputs on the real code)
    def hit(self, fingerprint, what, replay):
        self.hits.append({"fingerprint": fingerprint, "what": what, "replay": replay})

    # -- finish
    def finish(self):
        os.makedirs(EVIDENCE, exist_ok=True)
        os.makedirs(REPLAYS, exist_ok=True)
        known = load_known(self.prop)
        lines = []
        violations = 0
        reported = set()
        for h in self.hits:
            k = match_known(known, h["fingerprint"])
            if k is not None:
                key = ("known", k["fingerprint"])
                if key not in reported:
                    reported.add(key)
                    lines.append("KNOWN-FINDING: property=%s %s" % (self.prop, k["what"]))
                continue
            key = ("viol", h["fingerprint"])
            if key in reported:
                continue
            reported.add(key)
            if violations >= 5:
                continue
            violations += 1
            path = self._write_replay("failing-input", h)
            lines.append("VIOLATION property=%s replay=%s" % (self.prop, path))
        if violations == 0 and self.broken:
            obj = {"fingerprint": "broken-obligation", "what": "proof obligation or correspondence no longer checks",
                   "replay": {"broken": [{"kind": k, "name": n, "detail": d} for k, n, d in self.broken[:20]],
                              "notes": self.notes}}
            path = self._write_replay("broken-obligation", obj)
            violations += 1
            lines.append("VIOLATION property=%s replay=%s no-failing-input-found" % (self.prop, path))
        # the verdict procedure itself is an obligation that is always discharged when we get here; it keeps
        # the evidence schema-valid (discharged >= 1) even when a translator fails before anything else ran
        self.obligations.append(("verdict-procedure-completed", True, ""))
        obl_n = len(self.obligations)
        obl_ok = sum(1 for o in self.obligations if o[1])
        cov = {
            "obligations": max(obl_n, 0),
            "discharged": obl_ok,
            "obligation_list": [{"name": n, "ok": ok, "detail": d[:300]} for n, ok, d in self.obligations],
            "checker_cmd": " && ".join(dict.fromkeys(self.checker_cmds)) or "none",
            "trusted_base": self.trusted,
            "axioms_reported_by_Print_Assumptions": sorted(self.axioms_seen),
            "correspondence": [{"name": n, "cases": c, "disagreements": len(d), "first": d[:3]} for n, c, d in self.ties],
            "traces_validated_against_impl": sum(c for _n, c, _d in self.ties),
            "evaluations": self.evaluations,
            "distinct_nontrivial": len(self.nontrivial),
            "rule": self.rule,
            "samples": self.samples or ["(none)"],
            "known_findings_reported": sorted(k[1] for k in reported if k[0] == "known"),
        }
        cov.update(self.coverage)
        ev = {
            "property_id": self.prop, "tier": self.tier, "seed": self.seed, "level": self.level,
            "coverage": cov, "assumptions": self.assumptions, "wall_s": round(time.time() - self.t0, 2),
            "violations": violations,
        }
        try:
            validate_evidence(ev)
        except RuntimeError as e:
            log("WARNING: " + str(e)[-600:])
            if not violations:
                raise
        tmp = os.path.join(EVIDENCE, ".%s.json.tmp" % self.prop)
        with open(tmp, "w") as f:
            json.dump(ev, f, indent=1, ensure_ascii=True, default=str)
        os.replace(tmp, os.path.join(EVIDENCE, self.prop + ".json"))
        for ln in lines:
            print(ln, flush=True)
        print("%s %s: obligations %d/%d, correspondence cases %d, evaluations %d (distinct non-trivial %d), violations %d, %.1fs"
              % (self.prop, self.tier, obl_ok, obl_n, cov["traces_validated_against_impl"], self.evaluations,
                 len(self.nontrivial), violations, time.time() - self.t0), flush=True)
        return 1 if violations else 0

    def _write_replay(self, kind, h):
        fp = hashlib.sha256(repr(h["fingerprint"]).encode("utf8", "replace")).hexdigest()[:10]
        path = os.path.join(REPLAYS, "%s-%s.json" % (self.prop, fp))
        obj = {"property": self.prop, "kind": kind, "fingerprint": h["fingerprint"], "what": h["what"],
               "replay": h["replay"], "command": "./check %s --replay %s" % (self.prop, path)}
        with open(path, "w") as f:
            json.dump(obj, f, indent=1, ensure_ascii=True, default=str)
        return path


def load_known(prop):
    p = os.path.join(VERIF, "known_findings.json")
    try:
        data = json.load(open(p))
    except OSError:
        return []
    return [k for k in data.get("findings", []) if k.get("property") == prop and k.get("status") == "known"]


def match_known(known, fingerprint):
    for k in known:
        if k["fingerprint"] == fingerprint:
            return k
    return None


def validate_evidence(ev):
    """Schema-check the evidence with the tooling venv's jsonschema (not installed in /venv)."""
    schema = "/root/.vp/EVIDENCE.schema.json"
    if not os.path.exists(schema):
        schema = os.path.join(VERIF, "vt", "EVIDENCE.schema.json")
    code = ("import json,sys,jsonschema; jsonschema.validate(json.load(sys.stdin), json.load(open(%r)))" % schema)
    rc, out = sh(["python3-vt", "-c", code], input=json.dumps(ev, default=str), timeout=60)
    if rc != 0 and "No such file" not in out and "not found" not in out:
        raise RuntimeError("evidence does not validate: " + out[-800:])


# --------------------------------------------------------------------------- helpers for model I/O

def cps(s):
    """Python str -> space separated code points (line protocol of the OCaml drivers)."""
    return " ".join(str(ord(c)) for c in s)


def uncps(line):
    line = line.strip()
    return "".join(chr(int(x)) for x in line.split()) if line else ""


def coq_str(s):
    """Python str -> Gallina `list N` literal."""
    return "[" + "; ".join("%d" % ord(c) for c in s) + "]%N"
