"""Rewrites the generated part of DESIGN.md §13 (between the AUTOGEN markers) from known_findings.json and seeded/*/meta.json."""
import glob, json, os, re
V = os.path.dirname(os.path.dirname(os.path.abspath(__file__)))
kf = json.load(open(os.path.join(V, "known_findings.json")))["findings"]
out = []
out.append("### 13.1 Genuine defects found in /repo (all reproduced on the real code)\n")
out.append("| prop | status | commit | what failed |\n|---|---|---|---|")
for f in sorted(kf, key=lambda f: (f["property"], f.get("commit", ""))):
    out.append("| %s | %s | %s | %s |" % (f["property"], f["status"], f.get("commit", "-"), f["what"].replace("|", "\\|").replace("\n", " ")))
out.append("\nA `fixed` entry suppresses nothing; the single `known` entry is matched by its exact fingerprint only.\n")
out.append("### 13.2 Seeded changes (written by fresh sub-agents that saw only the property text) and what catches them\n")
out.append("| seed | what it needs to manifest | caught by |\n|---|---|---|")
for d in sorted(glob.glob(os.path.join(V, "seeded", "*"))):
    mp = os.path.join(d, "meta.json")
    if not os.path.exists(mp):
        continue
    m = json.load(open(mp))
    need = m.get("what_it_needs_to_manifest") or m.get("what_it_needs") or ""
    if isinstance(need, (list, dict)):
        need = json.dumps(need)
    out.append("| %s | %s | %s |" % (os.path.basename(d), str(need).replace("|", "\\|").replace("\n", " ")[:300],
                                     str(m.get("caught_by", "NOT YET EVALUATED")).replace("|", "\\|").replace("\n", " ")[:300]))
txt = "\n".join(out) + "\n"
p = os.path.join(V, "DESIGN.md")
s = open(p).read()
a, b = "<!-- AUTOGEN:BEGIN -->", "<!-- AUTOGEN:END -->"
if a not in s:
    s = s.replace("(filled in as properties are integrated)\n", a + "\n" + b + "\n")
s = re.sub(re.escape(a) + r".*?" + re.escape(b), lambda _m: a + "\n" + txt + b, s, flags=re.S)
open(p, "w").write(s)
print("DESIGN.md §13 regenerated:", len(kf), "findings")
