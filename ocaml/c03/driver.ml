(* line protocol (tokens separated by blanks):
     C                      clear the universe
     D n s1 .. sn           default aliases (each: k c1..ck)
     G k c1..ck             pagename
     U <str> <node>         define template: normalised title, parsed node
     X limit <node>         expand: prints "OK k c1..ck" | "ERR XRec" | "ERR XMem"
   node syntax: S k c1..ck | E | Q n nodes | V n nodes | T node n nodes | I n nodes | J n nodes | W node n nodes *)
open C03_model
let rec pos_of_int i = if i = 1 then XH else if i land 1 = 1 then XI (pos_of_int (i lsr 1)) else XO (pos_of_int (i lsr 1))
let n_of_int i = if i = 0 then N0 else Npos (pos_of_int i)
let rec int_of_pos = function XH -> 1 | XO p -> 2 * int_of_pos p | XI p -> 2 * int_of_pos p + 1
let int_of_n = function N0 -> 0 | Npos p -> int_of_pos p
let rec nat_of_int i = if i <= 0 then O else S (nat_of_int (i - 1))

let toks = ref [||]
let pos = ref 0
let next () = let t = !toks.(!pos) in incr pos; t
let next_int () = int_of_string (next ())
let read_str () = let k = next_int () in List.init k (fun _ -> n_of_int (next_int ()))
let rec read_node () =
  match next () with
  | "S" -> NStr (read_str ())
  | "E" -> NEq
  | "Q" -> let n = next_int () in NSeq (read_nodes n)
  | "V" -> let n = next_int () in NVar (read_nodes n)
  | "T" -> let nm = read_node () in let n = next_int () in NTpl (nm, read_nodes n)
  | "I" -> let n = next_int () in NIf (read_nodes n)
  | "J" -> let n = next_int () in NIfEq (read_nodes n)
  | "W" -> let v = read_node () in let n = next_int () in NSwitch (v, read_nodes n)
  | t -> failwith ("bad node tag " ^ t)
and read_nodes n = if n = 0 then [] else let x = read_node () in x :: read_nodes (n - 1)

let out_str s = String.concat " " (string_of_int (List.length s) :: List.map (fun x -> string_of_int (int_of_n x)) s)

let universe : (int list, node) Hashtbl.t = Hashtbl.create 16
let pagename = ref []
let defaults = ref [ List.map (fun c -> n_of_int (Char.code c)) (List.of_seq (String.to_seq "#default")) ]

(* Expander.get_parsed_template + DictDB.normalize_and_get_page (ASCII titles) *)
let tpl (name : n list) : node option =
  let ints = List.map int_of_n name in
  let starts p l = let rec go p l = match p, l with [], _ -> true | a :: p', b :: l' -> a = b && go p' l' | _ -> false in go p l in
  if ints = [] || starts [91; 91] ints || List.mem 124 ints then None
  else
    let ints = if starts [47] ints then List.map int_of_n !pagename @ ints else ints in
    let norm = List.map (fun c -> if c >= 65 && c <= 90 then c + 32 else if c = 32 then 95 else c) ints in
    Hashtbl.find_opt universe norm

(* ---- concrete lazy strategies (C03_model.mreq) for the tie: #ifexpr (integer literal conditions), lc (ASCII), padleft
   (plain decimal widths), #iferror (values without '<').  Names, remainder handling and fetch order follow
   nodes.pyx Template._flatten :221-262 and magics.py; anything outside these sub-domains raises Unsupported_magic and the
   case is excluded from the tie (counted). *)
exception Unsupported_magic of string
let ints_of s = List.map int_of_n s
let n_of_ints l = List.map n_of_int l
let lower_c c = if c >= 65 && c <= 90 then c + 32 else c
let ascii_string l = String.init (List.length l) (fun i -> Char.chr (List.nth l i))
let supported = ["#ifexpr"; "lc"; "padleft"; "#iferror"]
let rec split_colon acc = function
  | [] -> None
  | 58 :: r -> Some (List.rev acc, r)
  | c :: r -> split_colon (c :: acc) r
(* name after strip -> (function, Some remainder | None) *)
let magic_name (name : n list) : (string * int list option) option =
  let ints = ints_of name in
  if List.exists (fun c -> c >= 128) ints then None else
  match split_colon [] ints with
  | Some (f, rem) -> let f = ascii_string (List.map lower_c f) in if List.mem f supported then Some (f, Some rem) else None
  | None -> let f = ascii_string (List.map lower_c ints) in if List.mem f supported then Some (f, None) else None
let is_magic name = magic_name name <> None
(* fetch argument j of the ArgumentList [remainder] + args *)
let ask rem j (k : int list -> mreq) : mreq =
  match rem with
  | Some r when j = 0 -> k (ints_of (strip (n_of_ints r)))
  | Some _ -> MAsk (nat_of_int (j - 1), fun s -> k (ints_of s))
  | None -> MAsk (nat_of_int j, fun s -> k (ints_of s))
let is_digit c = c >= 48 && c <= 57
let is_alpha c = (c >= 65 && c <= 90) || (c >= 97 && c <= 122)
let small_int l = (* [-]digits, at most 9 digits *)
  let neg, d = (match l with 45 :: r -> true, r | _ -> false, l) in
  if d <> [] && List.length d <= 9 && List.for_all is_digit d
  then Some ((if neg then -1 else 1) * List.fold_left (fun a c -> a * 10 + (c - 48)) 0 d) else None
let done_ l = MDone (n_of_ints l)
let magic_prog (name : n list) (nargs : nat) : mreq =
  let rec int_of_nat = function O -> 0 | S n -> 1 + int_of_nat n in
  match magic_name name with
  | None -> MDone []
  | Some (f, rem) ->
    let total = int_of_nat nargs + (match rem with Some _ -> 1 | None -> 0) in
    (match f with
     | "#ifexpr" ->
       ask rem 0 (fun c ->
         let truth = if c = [] then false else
           (match small_int c with Some v -> v <> 0 | None -> raise (Unsupported_magic "#ifexpr condition")) in
         if truth then ask rem 1 done_ else ask rem 2 done_)
     | "lc" ->
       if total = 0 then MDone [] else
       ask rem 0 (fun s -> if List.exists (fun c -> c >= 128) s then raise (Unsupported_magic "lc non-ascii") else done_ (List.map lower_c s))
     | "padleft" ->
       ask rem 0 (fun s ->
         ask rem 1 (fun w ->
           match small_int w with
           | Some width ->
             ask rem 2 (fun fill ->
               let fill = if fill = [] then [48] else fill in
               let cnt = max 0 (min width 500 - List.length s) in
               let fl = List.length fill in
               done_ (List.init cnt (fun i -> List.nth fill (i mod fl)) @ s))
           | None ->
             if w = [] || (List.for_all is_alpha w) then done_ s          (* int() raises ValueError *)
             else raise (Unsupported_magic "padleft width")))
     | "#iferror" ->
       ask rem 0 (fun v ->
         ask rem 1 (fun _bad ->
           let fin good = if List.mem 60 v then raise (Unsupported_magic "#iferror value with <") else done_ good in
           if total > 2 then ask rem 2 fin else fin v))
     | _ -> MDone [])

let () =
  try while true do
    let line = input_line stdin in
    toks := Array.of_list (List.filter (fun x -> x <> "") (String.split_on_char ' ' line));
    pos := 0;
    (try
      match next () with
      | "C" -> Hashtbl.reset universe
      | "D" -> let n = next_int () in defaults := List.init n (fun _ -> read_str ())
      | "G" -> pagename := read_str ()
      | "U" -> let nm = read_str () in let nd = read_node () in Hashtbl.replace universe (List.map int_of_n nm) nd
      | "X" ->
        let limit = next_int () in
        let nd = read_node () in
        (match (try `R (expand tpl is_magic magic_prog !defaults (nat_of_int limit) nd) with Unsupported_magic m -> `U m) with
         | `R (Ok s) -> print_string ("OK " ^ out_str s ^ "\n")
         | `R (Err XRec) -> print_string "ERR XRec\n"
         | `R (Err XMem) -> print_string "ERR XMem\n"
         | `U m -> print_string ("UNSUP " ^ m ^ "\n"))
      | t -> print_string ("BAD " ^ t ^ "\n")
    with e -> print_string ("EXN " ^ Printexc.to_string e ^ "\n"))
  done with End_of_file -> ()
