(* line protocol (tokens separated by blanks):
     C                      clear the universe
     D n s1 .. sn           default aliases (each: k c1..ck)
     G k c1..ck             pagename
     U <str> <node>         define template: normalised title, parsed node
     X limit <node>         expand: prints "OK k c1..ck" | "ERR XRec" | "ERR XMem"
   node syntax: S k c1..ck | E | Q n nodes | V n nodes | T node n nodes | I n nodes | J n nodes | W node n nodes *)
open C03_model
let rec pos_of_int i = if i = 1 then XH else if i land 1 = 1 then XI (pos_of_int (i lsr 1)) else XO (pos_of_int (i lsr 1))
let n_of_int i = if i = 0 then N0 else Npos (pos_of_int i)
let rec int_of_pos = function XH -> 1 | XO p -> 2 * int_of_pos p | XI p -> 2 * int_of_pos p + 1
let int_of_n = function N0 -> 0 | Npos p -> int_of_pos p
let rec nat_of_int i = if i <= 0 then O else S (nat_of_int (i - 1))

let toks = ref [||]
let pos = ref 0
let next () = let t = !toks.(!pos) in incr pos; t
let next_int () = int_of_string (next ())
let read_str () = let k = next_int () in List.init k (fun _ -> n_of_int (next_int ()))
let rec read_node () =
  match next () with
  | "S" -> NStr (read_str ())
  | "E" -> NEq
  | "Q" -> let n = next_int () in NSeq (read_nodes n)
  | "V" -> let n = next_int () in NVar (read_nodes n)
  | "T" -> let nm = read_node () in let n = next_int () in NTpl (nm, read_nodes n)
  | "I" -> let n = next_int () in NIf (read_nodes n)
  | "J" -> let n = next_int () in NIfEq (read_nodes n)
  | "W" -> let v = read_node () in let n = next_int () in NSwitch (v, read_nodes n)
  | t -> failwith ("bad node tag " ^ t)
and read_nodes n = if n = 0 then [] else let x = read_node () in x :: read_nodes (n - 1)

let out_str s = String.concat " " (string_of_int (List.length s) :: List.map (fun x -> string_of_int (int_of_n x)) s)

let universe : (int list, node) Hashtbl.t = Hashtbl.create 16
let pagename = ref []
let defaults = ref [ List.map (fun c -> n_of_int (Char.code c)) (List.of_seq (String.to_seq "#default")) ]

(* Expander.get_parsed_template + DictDB.normalize_and_get_page (ASCII titles) *)
let tpl (name : n list) : node option =
  let ints = List.map int_of_n name in
  let starts p l = let rec go p l = match p, l with [], _ -> true | a :: p', b :: l' -> a = b && go p' l' | _ -> false in go p l in
  if ints = [] || starts [91; 91] ints || List.mem 124 ints then None
  else
    let ints = if starts [47] ints then List.map int_of_n !pagename @ ints else ints in
    let norm = List.map (fun c -> if c >= 65 && c <= 90 then c + 32 else if c = 32 then 95 else c) ints in
    Hashtbl.find_opt universe norm

let () =
  try while true do
    let line = input_line stdin in
    toks := Array.of_list (List.filter (fun x -> x <> "") (String.split_on_char ' ' line));
    pos := 0;
    (try
      match next () with
      | "C" -> Hashtbl.reset universe
      | "D" -> let n = next_int () in defaults := List.init n (fun _ -> read_str ())
      | "G" -> pagename := read_str ()
      | "U" -> let nm = read_str () in let nd = read_node () in Hashtbl.replace universe (List.map int_of_n nm) nd
      | "X" ->
        let limit = next_int () in
        let nd = read_node () in
        (match expand tpl (fun _ -> false) (fun _ _ -> []) !defaults (nat_of_int limit) nd with
         | Ok s -> print_string ("OK " ^ out_str s ^ "\n")
         | Err XRec -> print_string "ERR XRec\n"
         | Err XMem -> print_string "ERR XMem\n")
      | t -> print_string ("BAD " ^ t ^ "\n")
    with e -> print_string ("EXN " ^ Printexc.to_string e ^ "\n"))
  done with End_of_file -> ()
