(* line protocol: one case per line, sections separated by " ; ":
     L limit ; F 0/1 ; P title file anon nusers {uid bot} nrevs {revid redirect-or-0 ntpl {tpl} nimg {img}} ; ...
     ; M k {title revid-or-0} ; S n c1 .. cn ; ... ; E
   a schedule entry c means: complete pending call number c/2 (mod length), dispatcher finds the API idle iff c odd.
   output: OK # fetched # needed # final-or-stuck steps measure0 | stored # ...   (items separated by commas) *)
open C11_model
let rec pos_of_int i = if i = 1 then XH else if i land 1 = 1 then XI (pos_of_int (i lsr 1)) else XO (pos_of_int (i lsr 1))
let n_of_int i = if i = 0 then N0 else Npos (pos_of_int i)
let rec int_of_pos = function XH -> 1 | XO p -> 2 * int_of_pos p | XI p -> 2 * int_of_pos p + 1
let int_of_n = function N0 -> 0 | Npos p -> int_of_pos p
let rec nat_of_int i = if i <= 0 then O else S (nat_of_int (i - 1))
let rec int_of_nat = function O -> 0 | S n -> 1 + int_of_nat n

let item_s = function
  | IArt (t, r, src) -> Printf.sprintf "A %d %d %d" (int_of_n t) (match r with None -> 0 | Some x -> int_of_n x) (int_of_n src)
  | IRedir (a, b) -> Printf.sprintf "R %d %d" (int_of_n a) (int_of_n b)
  | IInfo i -> Printf.sprintf "I %d" (int_of_n i)
  | IFile i -> Printf.sprintf "X %d" (int_of_n i)
  | IDesc i -> Printf.sprintf "D %d" (int_of_n i)
  | IAuth (k, us, an) -> String.concat " " (["U"; string_of_int (int_of_n k); string_of_int (int_of_n an)] @ List.map (fun u -> string_of_int (int_of_n u)) us)
let items_s l = String.concat "," (List.sort_uniq compare (List.map item_s l))

let take k l = let rec go k l acc = if k = 0 then (List.rev acc, l) else match l with x :: r -> go (k - 1) r (x :: acc) | [] -> failwith "short" in go k l []

let parse_page toks =
  match toks with
  | t :: file :: anon :: nu :: rest ->
    let rec users k l acc = if k = 0 then (List.rev acc, l) else match l with u :: b :: r -> users (k - 1) r ((n_of_int u, b = 1) :: acc) | _ -> failwith "users" in
    let (us, rest) = users nu rest [] in
    (match rest with
     | nr :: rest ->
       let rec revs k l acc = if k = 0 then (List.rev acc, l) else
           match l with
           | rid :: red :: nt :: r ->
             let (tp, r) = take nt r in
             (match r with
              | ni :: r -> let (im, r) = take ni r in
                revs (k - 1) r ({ r_id = n_of_int rid; r_redirect = (if red = 0 then None else Some (n_of_int red));
                                  r_tpls = List.map n_of_int tp; r_imgs = List.map n_of_int im } :: acc)
              | _ -> failwith "imgs")
           | _ -> failwith "rev" in
       let (rs, _) = revs nr rest [] in
       { p_title = n_of_int t; p_file = (file = 1); p_anon = n_of_int anon; p_users = us; p_revs = rs }
     | _ -> failwith "nrevs")
  | _ -> failwith "page"

let () =
  try while true do
    let line = input_line stdin in
    (try
      let secs = List.map String.trim (String.split_on_char ';' line) in
      let limit = ref 1 and fi = ref true and pages = ref [] and mb = ref [] and scheds = ref [] in
      List.iter (fun sec ->
        match List.filter (fun x -> x <> "") (String.split_on_char ' ' sec) with
        | "L" :: [x] -> limit := int_of_string x
        | "F" :: [x] -> fi := (x = "1")
        | "P" :: toks -> pages := parse_page (List.map int_of_string toks) :: !pages
        | "M" :: _ :: toks ->
          let rec go l = match l with t :: r :: rest -> (n_of_int (int_of_string t), (let r = int_of_string r in if r = 0 then None else Some (n_of_int r))) :: go rest | _ -> [] in
          mb := go toks
        | "S" :: _ :: toks -> scheds := List.map int_of_string toks :: !scheds
        | _ -> ()) secs;
      let w = List.rev !pages in
      let l = nat_of_int !limit in
      let s0 = init w l !fi !mb in
      let m0 = int_of_nat (measure w s0) in
      let outs = List.map (fun sched ->
        let arr = Array.of_list (if sched = [] then [0] else sched) in
        let s = ref s0 and steps = ref 0 in
        while not (final !s) && !steps < 200000 do
          let c = arr.(!steps mod Array.length arr) in
          s := step w l !fi !s (nat_of_int (c / 2), c land 1 = 1);
          incr steps
        done;
        Printf.sprintf "%s %d %d|%s" (if final !s then "final" else "stuck") !steps m0 (items_s (stored !s))) (List.rev !scheds) in
      print_string (String.concat "#" (["OK"; items_s (fetched w !fi !mb); items_s (needed w !fi !mb)] @ outs) ^ "\n")
    with e -> print_string ("ERR " ^ Printexc.to_string e ^ "\n"))
  done with End_of_file -> ()
