(* line protocol.  fields separated by '|', strings = space separated code points.
   S|<site name>|<default namespace (decimal)>|<title>   ->  <ns>|<partial>|<full>   or  KEYERROR  or  NOSITE
   L|<string>                                            ->  lower(string)
   U|<code point>                                        ->  upper of one character
   E|<string>                                            ->  _strip_edges(string) *)
open C12_model
let rec pos_of_int i = if i = 1 then XH else if i land 1 = 1 then XI (pos_of_int (i lsr 1)) else XO (pos_of_int (i lsr 1))
let n_of_int i = if i = 0 then N0 else Npos (pos_of_int i)
let z_of_int i = if i = 0 then Z0 else if i > 0 then Zpos (pos_of_int i) else Zneg (pos_of_int (-i))
let rec int_of_pos = function XH -> 1 | XO p -> 2 * int_of_pos p | XI p -> 2 * int_of_pos p + 1
let int_of_n = function N0 -> 0 | Npos p -> int_of_pos p
let int_of_z = function Z0 -> 0 | Zpos p -> int_of_pos p | Zneg p -> - (int_of_pos p)
let str_of_field f = List.map (fun x -> n_of_int (int_of_string x)) (List.filter (fun x -> x <> "") (String.split_on_char ' ' f))
let field_of_str s = String.concat " " (List.map (fun x -> string_of_int (int_of_n x)) s)
let sites : (string, site) Hashtbl.t = Hashtbl.create 16
let get_site nm =
  match Hashtbl.find_opt sites nm with
  | Some s -> Some s
  | None -> (match site_by_name (str_of_field nm) with
             | Some s -> Hashtbl.add sites nm s; Some s
             | None -> None)
let () =
  let buf = Buffer.create 65536 in
  (try while true do
    let line = input_line stdin in
    (match String.split_on_char '|' line with
    | ["S"; nm; dns; t] ->
      (match get_site nm with
       | None -> Buffer.add_string buf "NOSITE\n"
       | Some st ->
         (match py_splitname st (str_of_field t) (z_of_int (int_of_string dns)) with
          | KeyError -> Buffer.add_string buf "KEYERROR\n"
          | Ok ((ns, p), f) ->
            Buffer.add_string buf (string_of_int (int_of_z ns) ^ "|" ^ field_of_str p ^ "|" ^ field_of_str f ^ "\n")))
    | ["L"; s] -> Buffer.add_string buf (field_of_str (py_lower (str_of_field s)) ^ "\n")
    | ["U"; c] -> Buffer.add_string buf (field_of_str (py_upper_char (n_of_int (int_of_string (String.trim c)))) ^ "\n")
    | ["E"; s] -> Buffer.add_string buf (field_of_str (py_strip_edges (str_of_field s)) ^ "\n")
    | _ -> Buffer.add_string buf "ERR\n");
    if Buffer.length buf > 60000 then (print_string (Buffer.contents buf); Buffer.clear buf)
  done with End_of_file -> ());
  print_string (Buffer.contents buf)
