(* line protocol.
   R <entity code points>|<int outcome: "N" or decimal integer>|<name outcome: "N" or decimal integer>
       -> "OK <code points>" | "RAISE <exn>"
   P <counts>|<real path: apo,b,i triples separated by ';'>
       -> "LEN <model len> VALID <0/1> A <score of final state, tie-breaking a> B <.., b> MAXNEW <max generated per step> WORK <generated per step, tie-breaking a>"  | "RAISE <exn>" *)
open C01_model
let rec pos_of_int i = if i = 1 then XH else if i land 1 = 1 then XI (pos_of_int (i lsr 1)) else XO (pos_of_int (i lsr 1))
let n_of_int i = if i = 0 then N0 else Npos (pos_of_int i)
let z_of_int i = if i = 0 then Z0 else if i > 0 then Zpos (pos_of_int i) else Zneg (pos_of_int (-i))
let rec int_of_pos = function XH -> 1 | XO p -> 2 * int_of_pos p | XI p -> 2 * int_of_pos p + 1
let int_of_n = function N0 -> 0 | Npos p -> int_of_pos p
let rec nat_of_int i = if i <= 0 then O else S (nat_of_int (i - 1))
let rec int_of_nat = function O -> 0 | S n -> 1 + int_of_nat n
let ints f = List.map int_of_string (List.filter (fun x -> x <> "") (String.split_on_char ' ' f))
let str_of_field f = List.map n_of_int (ints f)
let field_of_str s = String.concat " " (List.map (fun x -> string_of_int (int_of_n x)) s)
(* integers beyond 18 digits are clamped to +-2^61: chr's outcome depends only on the range *)
let z_outcome s =
  let s = String.trim s in
  if s = "N" then None
  else
    let neg = String.length s > 0 && s.[0] = '-' in
    let digits = if neg then String.sub s 1 (String.length s - 1) else s in
    let v = if String.length digits > 18 then 1 lsl 61 else int_of_string digits in
    Some (z_of_int (if neg then -v else v))
let exn_name = function EValue -> "ValueError" | EOverflow -> "OverflowError" | EKey -> "KeyError" | EIndex -> "IndexError"
  | EInconsistent -> "InconsistentPathLengthException" | EFuel -> "OutOfFuel"
let st_of_triple t = match List.map int_of_string (String.split_on_char ',' t) with
  | [a; b; i] -> { apo = nat_of_int a; bold = (b = 1); ital = (i = 1) }
  | _ -> failwith "triple"
let () =
  try while true do
    let line = input_line stdin in
    let kind = line.[0] in
    let rest = String.sub line 2 (String.length line - 2) in
    let fields = String.split_on_char '|' rest in
    (match kind, fields with
     | 'R', [e; io; no] ->
       let io = z_outcome io and no = z_outcome no in
       (match resolve_entity (fun _ _ -> io) (fun _ -> no) caught_numeric surrogate_guard (str_of_field e) with
        | Ok s -> print_string ("OK " ^ field_of_str s ^ "\n")
        | Raise x -> print_string ("RAISE " ^ exn_name x ^ "\n"))
     | 'P', [cs; path] ->
       let counts = List.map nat_of_int (ints cs) in
       let real = List.map st_of_triple (List.filter (fun x -> x <> "") (String.split_on_char ';' path)) in
       (match compute_path_work stable_sort counts, compute_path_work antistable_sort counts with
        | Ok (pa, wa), Ok (pb, _) ->
          let rec valid prev cs ps = match cs, ps with
            | [], [] -> true
            | c :: cs', p :: ps' -> is_successor c prev p && valid p cs' ps'
            | _, _ -> false in
          let last l = List.fold_left (fun _ x -> Some x) None l in
          let sc l = match last l with Some s -> int_of_nat (score s) | None -> 0 in
          let maxnew = List.fold_left (fun m w -> max m (int_of_nat w)) 0 wa in
          Printf.printf "LEN %d VALID %d A %d B %d MAXNEW %d WORK %s\n" (List.length pa) (if valid init_st counts real then 1 else 0) (sc pa) (sc pb) maxnew
            (String.concat "," (List.map (fun w -> string_of_int (int_of_nat w)) wa))
        | Raise x, _ | _, Raise x -> print_string ("RAISE " ^ exn_name x ^ "\n"))
     | _ -> print_string "ERR\n")
  done with End_of_file -> ()
