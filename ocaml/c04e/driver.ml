(* C04 / #expr — line-protocol driver around the extracted model (coq/C04/ExprModel.v).

   input lines
     T <id> <tok> ...      parse the given token list (the REAL output of expr.tokenize) with the extracted
                           parse_expr under the GENERATED table of expr.py and the numeric instance below
       tokens:  n:<literal>   c:e | c:pi   o:<operator spelling>   (   )   u:<anything>
     E <id> <tree>         tree in prefix notation:  N <literal> | C e|pi | U <prefix op> <tree> | B <binary op> <tree> <tree>
   output
     T:  <id> TAB <result>
     E:  <id> TAB ser_min tokens TAB ser_full tokens TAB ser_double tokens TAB result(min) TAB result(full) TAB result(double)
         (serialised w.r.t. the DOCUMENTED table, parsed with the generated one)
     result:  I <int> | F <hex float> | ERR <python exception type> | PERR <model error> | EMPTY | OOD <why>

   Numeric instance = Python's int/float mixing for the functions registered in expr.py (ExprModel.documented_sem;
   Gen_ops.gen_sem = documented_sem is a checked obligation).  ints are exact up to 2^53 (beyond: OOD, the case
   is skipped and counted by the caller); inf/nan results: OOD; `round`: OOD. *)
open C04e_model

let rec int_of_pos = function XH -> 1 | XO p -> 2 * int_of_pos p | XI p -> 2 * int_of_pos p + 1
let int_of_n = function N0 -> 0 | Npos p -> int_of_pos p
let rec pos_of_int i = if i = 1 then XH else if i land 1 = 1 then XI (pos_of_int (i lsr 1)) else XO (pos_of_int (i lsr 1))
let n_of_int i = if i = 0 then N0 else Npos (pos_of_int i)
let str_of_string s = List.init (String.length s) (fun i -> n_of_int (Char.code s.[i]))
let string_of_str l = String.concat "" (List.map (fun c -> String.make 1 (Char.chr (int_of_n c land 255))) l)

type v = VInt of int | VFloat of float

let first_err : string option ref = ref None
let ood : string option ref = ref None
let raise_py k = (match !first_err with None -> first_err := Some k | Some _ -> ()); VInt 0
let out_of_domain why = (match !ood with None -> ood := Some why | Some _ -> ()); VInt 0

let lim = 9007199254740992            (* 2^53 *)
let limf = 9007199254740992.0
let chk_int i = if abs i >= lim then out_of_domain "int>=2^53" else VInt i
let chk_float f = if Float.is_nan f || Float.abs f = infinity then out_of_domain "inf/nan" else VFloat f
let to_float = function VInt i -> float_of_int i | VFloat f -> f
let truthy = function VInt i -> i <> 0 | VFloat f -> f <> 0.0
let of_bool b = VInt (if b then 1 else 0)

(* int(x) of Python: identity on ints, truncation on floats *)
let py_int = function
  | VInt i -> Some i
  | VFloat f -> if Float.abs f >= limf then None else Some (int_of_float f)

let int_of_rounded f = if Float.abs f >= limf then out_of_domain "int(float)>=2^53" else VInt (int_of_float f)

(* math.pow on finite arguments (mathmodule.c math_pow): nan -> ValueError; inf -> ValueError if x = 0 else OverflowError *)
let py_math_pow x y =
  let r = x ** y in
  if Float.is_nan r then raise_py "ValueError"
  else if Float.abs r = infinity then (if x = 0.0 then raise_py "ValueError" else raise_py "OverflowError")
  else VFloat r

let math1 name f x =
  let x = to_float x in
  let r = f x in
  if Float.is_nan r then raise_py "ValueError"
  else if Float.abs r = infinity then (if name = "ln" then raise_py "ValueError" else raise_py "OverflowError")
  else VFloat r

let arith fi ff a b =
  match a, b with
  | VInt x, VInt y -> fi x y
  | _ -> chk_float (ff (to_float a) (to_float b))

let mul_int x y =
  if abs x < 0x40000000 && abs y < 0x40000000 then chk_int (x * y)
  else if Float.abs (float_of_int x *. float_of_int y) >= limf then out_of_domain "int>=2^53" else chk_int (x * y)

let cmp op a b =
  match a, b with
  | VInt x, VInt y -> of_bool (op (compare x y) 0)
  | _ -> of_bool (op (compare (to_float a) (to_float b)) 0)    (* exact: ints are < 2^53, no nan in the domain *)

let fun1 (o : opname) (x : v) : v =
  match o with
  | OU UMinus -> (match x with VInt i -> VInt (- i) | VFloat f -> VFloat (-. f))
  | OU UPlus -> x
  | OU UNot -> of_bool (not (truthy x))
  | OU UAbs -> (match x with VInt i -> VInt (abs i) | VFloat f -> VFloat (Float.abs f))
  | OU USin -> math1 "sin" sin x
  | OU UCos -> math1 "cos" cos x
  | OU UAsin -> math1 "asin" asin x
  | OU UAcos -> math1 "acos" acos x
  | OU UTan -> math1 "tan" tan x
  | OU UAtan -> math1 "atan" atan x
  | OU UExp -> math1 "exp" exp x
  | OU ULn -> (match x with
               | VInt i when i <= 0 -> raise_py "ValueError"
               | VFloat f when f <= 0.0 -> raise_py "ValueError"
               | _ -> math1 "ln" log x)
  | OU UCeil -> (match x with VInt _ -> x | VFloat f -> int_of_rounded (Float.ceil f))
  | OU UFloor -> (match x with VInt _ -> x | VFloat f -> int_of_rounded (Float.floor f))
  | OU UTrunc -> (match py_int x with Some i -> VInt i | None -> out_of_domain "int(float)>=2^53")
  | _ -> out_of_domain "operator used with one argument but not registered as unary"

let fun2 (o : opname) (x : v) (y : v) : v =
  match o with
  | OB BPow -> py_math_pow (to_float x) (to_float y)
  | OSci -> (match py_math_pow 10.0 (to_float y) with
             | VFloat r -> chk_float (to_float x *. r)
             | e -> e)
  | OB BMul -> arith mul_int ( *. ) x y
  | OB BDiv | OB BDivW ->
      if to_float y = 0.0 then raise_py "ZeroDivisionError"
      else chk_float (to_float x /. to_float y)
  | OB BMod -> (match py_int x, py_int y with
                | Some a, Some b ->
                    if b = 0 then raise_py "ZeroDivisionError"
                    else let r = a mod b in VInt (if r <> 0 && ((r < 0) <> (b < 0)) then r + b else r)
                | _ -> out_of_domain "int(float)>=2^53")
  | OB BAdd -> arith (fun a b -> chk_int (a + b)) ( +. ) x y
  | OB BSub -> arith (fun a b -> chk_int (a - b)) ( -. ) x y
  | OB BRound -> out_of_domain "round"
  | OB BLt -> cmp ( < ) x y
  | OB BGt -> cmp ( > ) x y
  | OB BLe -> cmp ( <= ) x y
  | OB BGe -> cmp ( >= ) x y
  | OB BNe | OB BNe2 -> cmp ( <> ) x y
  | OB BEq -> cmp ( = ) x y
  | OB BAnd -> of_bool (truthy x && truthy y)
  | OB BOr -> of_bool (truthy x || truthy y)
  | _ -> out_of_domain "operator used with two arguments but not registered as binary"

(* Expr.as_float_or_int: float(text) if "." in text else int(text) *)
let num (l : lit) : v =
  let s = string_of_str l in
  if String.contains s '.' then
    (match float_of_string_opt (if s.[0] = '.' then "0" ^ s else s) with Some f -> chk_float f | None -> out_of_domain "literal")
  else if String.length s > 15 then out_of_domain "int literal >= 10^15"
  else (match int_of_string_opt s with Some i when i >= 0 -> VInt i | _ -> out_of_domain "literal")

let cst = function CE -> VFloat 0x1.5bf0a8b145769p+1 | CPi -> VFloat 0x1.921fb54442d18p+1

let uops = [ "UMinus", UMinus; "UPlus", UPlus; "not", UNot; "abs", UAbs; "sin", USin; "cos", UCos; "asin", UAsin;
             "acos", UAcos; "tan", UTan; "atan", UAtan; "exp", UExp; "ln", ULn; "ceil", UCeil; "floor", UFloor;
             "trunc", UTrunc ]
let bops = [ "^", BPow; "*", BMul; "/", BDiv; "div", BDivW; "mod", BMod; "+", BAdd; "-", BSub; "round", BRound;
             "<", BLt; ">", BGt; "<=", BLe; ">=", BGe; "!=", BNe; "<>", BNe2; "=", BEq; "and", BAnd; "or", BOr ]

let opname_of_symbol s =
  match List.assoc_opt s bops with
  | Some b -> Some (OB b)
  | None -> (match List.assoc_opt s uops with
             | Some u when s <> "UMinus" && s <> "UPlus" -> Some (OU u)
             | _ -> if s = "e" then Some OSci else None)   (* "e" never reaches here from tokenize: it is a constant *)

let symbol_of_opname o =
  match o with
  | OSci -> "e"
  | OB b -> fst (List.find (fun (_, b') -> b' = b) bops)
  | OU u -> fst (List.find (fun (_, u') -> u' = u) uops)

let token_of_string w =
  let n = String.length w in
  if w = "(" then TLParen else if w = ")" then TRParen
  else if n >= 2 && w.[1] = ':' then begin
    let body = String.sub w 2 (n - 2) in
    match w.[0] with
    | 'n' -> TNum (str_of_string body)
    | 'c' -> if body = "e" then TConst CE else if body = "pi" then TConst CPi else failwith ("bad constant " ^ body)
    | 'o' -> (match opname_of_symbol body with Some o -> TOp o | None -> TUnknown (str_of_string body))
    | 'u' -> TUnknown (str_of_string body)
    | _ -> failwith ("bad token " ^ w)
  end else failwith ("bad token " ^ w)

let string_of_token = function
  | TNum l -> "n:" ^ string_of_str l
  | TConst CE -> "c:e"
  | TConst CPi -> "c:pi"
  | TOp o -> "o:" ^ symbol_of_opname o
  | TLParen -> "("
  | TRParen -> ")"
  | TUnknown s -> "u:" ^ string_of_str s

let string_of_error = function
  | EExpectedOperator -> "expected-operator" | EUnbalanced -> "unbalanced" | EUnknownOperator -> "unknown-operator"
  | EBadStack -> "bad-stack" | EAssert -> "assert" | EKeyError -> "keyerror" | EArity -> "arity"

let parse_tokens toks =
  first_err := None; ood := None;
  let r = parse_expr num cst fun1 fun2 gen_table toks in
  match !ood, !first_err with
  | Some why, _ -> "OOD " ^ why
  | None, Some k -> "ERR " ^ k
  | None, None ->
    (match r with
     | PEmpty -> "EMPTY"
     | PErr e -> "PERR " ^ string_of_error e
     | PVal (VInt i) -> "I " ^ string_of_int i
     | PVal (VFloat f) -> Printf.sprintf "F %h" f)

let rec parse_tree ws =
  match ws with
  | "N" :: l :: r -> (Num (str_of_string l), r)
  | "C" :: "e" :: r -> (Cst CE, r)
  | "C" :: "pi" :: r -> (Cst CPi, r)
  | "U" :: o :: r ->
      let u = (match o with "-" -> UMinus | "+" -> UPlus | _ -> List.assoc o uops) in
      let (x, r) = parse_tree r in (Un (u, x), r)
  | "B" :: o :: r ->
      let b = List.assoc o bops in
      let (x, r) = parse_tree r in
      let (y, r) = parse_tree r in (Bin (b, x, y), r)
  | _ -> failwith "bad tree"

let words s = List.filter (fun x -> x <> "") (String.split_on_char ' ' s)

let () =
  try while true do
    let line = input_line stdin in
    (try
      match words line with
      | "T" :: id :: toks ->
          print_string (id ^ "\t" ^ parse_tokens (List.map token_of_string toks) ^ "\n")
      | "E" :: id :: tree ->
          let (t, rest) = parse_tree tree in
          if rest <> [] then failwith "trailing words";
          let sers = [ ser_min documented_table t; ser_full t; ser_double documented_table t ] in
          let show toks = String.concat " " (List.map string_of_token toks) in
          print_string (id ^ "\t" ^ String.concat "\t" (List.map show sers) ^ "\t"
                        ^ String.concat "\t" (List.map parse_tokens sers) ^ "\n")
      | [] -> ()
      | _ -> failwith "bad line"
    with Failure m | Invalid_argument m -> print_string ("DRIVER-ERROR " ^ m ^ "\n")
       | Not_found -> print_string "DRIVER-ERROR unknown operator name\n")
  done with End_of_file -> ()
