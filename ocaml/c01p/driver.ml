(* line protocol around the extracted loop models of coq/C01/Passes.v.
   input :  <K> <fuel> <tokens>|<cp>
            K in S (ParseSections) L (ParseLines) P (ParseParagraphs) Q (ParseSingleQuote) U (ParseUrls)
                 F (ParsePreformatted; model coq/C01/PassesPre.v, its own token codes:
                    o  w (t_pre)  n  B  Dq Dt Dl Dd Ds (complex_tag blockquote/table/timeline/div/span)  F (preformatted))
                 C (TableCellParser) R (TableRowParser) T (TableParser); model coq/C01/PassesTable.v, token codes:
                    o  _ (blank text)  n  b  |1 !1 |2 !2 |! (t_column "|" "!" "||" "!!" "|!")  td th /td /th  r (t_row) tr /tr
                    { (t_begin_table)  tb (<table>)  } (t_end_table)  /table  + (t_tablecaption)  | (special)  [[  ref
            fuel = "-" (X_fuel toks) or a decimal integer
            tokens = space separated codes, ids are the positions 1,2,3,..:
              o  s<n>  e<n>  n  b  i<chars>  c<chars>  q<n>  u  ]  2  :  /ul  /ol  B
            cp (only Q) = table of the REAL compute_path results in call order:  c1,c2,..=a.b.i,a.b.i,..;c1,..=...
                          (sq_run gets a function that looks the counts up; missing -> PRaise PValue)
   output:  OK <iters> <fuel> <sexp of the resulting token list>   |   RAISE <PFuel|PIndex|PValue|PAttr|PType> *)
open C01p_model
let rec pos_of_int i = if i = 1 then XH else if i land 1 = 1 then XI (pos_of_int (i lsr 1)) else XO (pos_of_int (i lsr 1))
let n_of_int i = if i = 0 then N0 else Npos (pos_of_int i)
let rec int_of_pos = function XH -> 1 | XO p -> 2 * int_of_pos p | XI p -> 2 * int_of_pos p + 1
let int_of_n = function N0 -> 0 | Npos p -> int_of_pos p
let nat_of_int i = let rec go acc i = if i <= 0 then acc else go (S acc) (i - 1) in go O i
let int_of_nat n = let rec go acc = function O -> acc | S m -> go (acc + 1) m in go 0 n

let pch_of_char = function ':' -> PcColon | '*' -> PcStar | '#' -> PcHash | ';' -> PcSemi | _ -> PcOther
let char_of_pch = function PcColon -> ':' | PcStar -> '*' | PcHash -> '#' | PcSemi -> ';' | PcOther -> '?'
let pfx_of_string s = List.init (String.length s) (fun i -> pch_of_char s.[i])
let string_of_pfx p = String.concat "" (List.map (fun c -> String.make 1 (char_of_pch c)) p)
let rest s = String.sub s 1 (String.length s - 1)

let kind_of_code c =
  match c with
  | "o" -> KOther | "n" -> KNewline | "b" -> KBreak | "u" -> KUrl | "]" -> KClose | "2" -> K2Close
  | ":" -> KSpColon | "/ul" -> KEndTag false | "/ol" -> KEndTag true | "B" -> KBlock
  | _ ->
    (match c.[0] with
     | 's' -> KSection (nat_of_int (int_of_string (rest c)))
     | 'e' -> KSectionEnd (nat_of_int (int_of_string (rest c)))
     | 'q' -> KQuote (nat_of_int (int_of_string (rest c)))
     | 'i' -> KItem (pfx_of_string (rest c))
     | 'c' -> KColon (pfx_of_string (rest c))
     | _ -> failwith ("bad code " ^ c))

let name_of_kind = function
  | KOther -> "o"
  | KSection n -> "s" ^ string_of_int (int_of_nat n)
  | KSectionEnd n -> "e" ^ string_of_int (int_of_nat n)
  | KNewline -> "n" | KBreak -> "b"
  | KItem p -> "i" ^ string_of_pfx p
  | KColon p -> "c" ^ string_of_pfx p
  | KQuote n -> "q" ^ string_of_int (int_of_nat n)
  | KUrl -> "u" | KClose -> "]" | K2Close -> "2" | KSpColon -> ":"
  | KEndTag false -> "/ul" | KEndTag true -> "/ol"
  | KBlock -> "B"
  | KEq n -> "eq" ^ string_of_int (int_of_nat n)
  | KApos n -> "ap" ^ string_of_int (int_of_nat n)
  | KNode b -> if b then "node1" else "node0"
  | KSect l -> "sect" ^ string_of_int (int_of_nat l)
  | KPara -> "p1"
  | KNamedUrl -> "nurl"
  | KStyle c -> "st" ^ (match c with CNone -> "" | C2 -> "2" | C3 -> "3" | CColon -> ":" | CSemi -> ";")
  | KLine (p, tagp) -> "line" ^ string_of_pfx p ^ (if tagp then "p" else "")
  | KTag (t, b) -> (match t with Tul -> "ul" | Tol -> "ol" | Tli -> "li" | Tp -> "p") ^ (if b then "1" else "0")

let rec emit buf (Tok (k, i, kids)) =
  Buffer.add_char buf '(';
  Buffer.add_string buf (name_of_kind k);
  Buffer.add_char buf ' ';
  Buffer.add_string buf (string_of_int (int_of_n i));
  List.iter (fun t -> Buffer.add_char buf ' '; emit buf t) kids;
  Buffer.add_char buf ')'

let sexp toks =
  let buf = Buffer.create 4096 in
  let first = ref true in
  List.iter (fun t -> (if !first then first := false else Buffer.add_char buf ' '); emit buf t) toks;
  Buffer.contents buf

(* ---- generic tokens (gtok) of PassesPre.v *)
let rec emit_g name buf (GTok (k, i, kids)) =
  Buffer.add_char buf '(';
  Buffer.add_string buf (name k);
  Buffer.add_char buf ' ';
  Buffer.add_string buf (string_of_int (int_of_n i));
  List.iter (fun t -> Buffer.add_char buf ' '; emit_g name buf t) kids;
  Buffer.add_char buf ')'

let sexp_g name toks =
  let buf = Buffer.create 4096 in
  let first = ref true in
  List.iter (fun t -> (if !first then first := false else Buffer.add_char buf ' '); emit_g name buf t) toks;
  Buffer.contents buf

let xkind_of_code = function
  | "o" -> XOther | "w" -> XPre | "n" -> XNewline | "B" -> XBlock | "F" -> XPreformatted
  | "Dq" -> XTag XtBlockquote | "Dt" -> XTag XtTable | "Dl" -> XTag XtTimeline | "Dd" -> XTag XtDiv | "Ds" -> XTag XtSpan
  | c -> failwith ("bad code " ^ c)

let name_of_xkind = function
  | XOther -> "o" | XPre -> "pre" | XNewline -> "n" | XBlock -> "B" | XPreformatted -> "pref"
  | XTag XtBlockquote -> "blockquote0" | XTag XtTable -> "table0" | XTag XtTimeline -> "timeline0"
  | XTag XtDiv -> "div0" | XTag XtSpan -> "span0"

let tkd_of_code = function
  | "o" -> TOther false | "_" -> TOther true | "n" -> TNewline | "b" -> TBreak
  | "|1" -> TColumn MBar | "!1" -> TColumn MBang | "|2" -> TColumn M2Bar | "!2" -> TColumn M2Bang | "|!" -> TColumn MOtherMark
  | "td" -> TCellTag false | "th" -> TCellTag true | "/td" -> TCellEnd false | "/th" -> TCellEnd true
  | "r" -> TRow | "tr" -> TRowTag | "/tr" -> TRowEnd
  | "{" -> TBegin | "tb" -> TTableTag | "}" -> TEnd | "/table" -> TTableEnd
  | "+" -> TCaption | "|" -> TBar | "[[" -> T2Open | "ref" -> TRefTag
  | c -> failwith ("bad code " ^ c)

let name_of_tkd = function
  | TOther false -> "o" | TOther true -> "_" | TNewline -> "n" | TBreak -> "b"
  | TColumn MBar -> "|1" | TColumn MBang -> "!1" | TColumn M2Bar -> "|2" | TColumn M2Bang -> "!2" | TColumn MOtherMark -> "|!"
  | TCellTag false -> "td" | TCellTag true -> "th" | TCellEnd false -> "/td" | TCellEnd true -> "/th"
  | TRow -> "r" | TRowTag -> "tr" | TRowEnd -> "/tr"
  | TBegin -> "{" | TTableTag -> "tb" | TEnd -> "}" | TTableEnd -> "/table"
  | TCaption -> "+" | TBar -> "|" | T2Open -> "[[" | TRefTag -> "ref0"
  | TPlus -> "plus" | TCell false -> "celltd" | TCell true -> "cellth" | TRowNode -> "row" | TTable -> "table"
  | TCaptionNode -> "cap"

let nonempty l = List.filter (fun x -> x <> "") l

let parse_toks s =
  let codes = nonempty (String.split_on_char ' ' s) in
  let (_, acc) = List.fold_left (fun (i, acc) c -> (i + 1, Tok (kind_of_code c, n_of_int i, []) :: acc)) (1, []) codes in
  List.rev acc

let parse_gtoks kind_of s =
  let codes = nonempty (String.split_on_char ' ' s) in
  let (_, acc) = List.fold_left (fun (i, acc) c -> (i + 1, GTok (kind_of c, n_of_int i, []) :: acc)) (1, []) codes in
  List.rev acc

(* "c1,c2=a.b.i,a.b.i;..." -> (int list * qst list) list *)
let parse_cp s =
  List.rev_map (fun e ->
      match String.split_on_char '=' e with
      | [cs; sts] ->
        let counts = List.map int_of_string (nonempty (String.split_on_char ',' cs)) in
        let states = List.map (fun t ->
            match List.map int_of_string (String.split_on_char '.' t) with
            | [a; b; i] -> { q_apo = nat_of_int a; q_bold = (b = 1); q_ital = (i = 1) }
            | _ -> failwith "state") (nonempty (String.split_on_char ',' sts)) in
        (counts, states)
      | _ -> failwith "cp entry") (nonempty (String.split_on_char ';' s))

let exn_name = function PFuel -> "PFuel" | PIndex -> "PIndex" | PValue -> "PValue" | PAttr -> "PAttr" | PType -> "PType"

let () =
  try while true do
    let line = input_line stdin in
    (try
      let bar = String.rindex line '|' in     (* the table passes have token codes with '|' *)
      let head = String.sub line 0 bar and cp = String.sub line (bar + 1) (String.length line - bar - 1) in
      let k = head.[0] in
      let sp = (try String.index_from head 2 ' ' with Not_found -> String.length head) in
      let fuel_s = String.sub head 2 (sp - 2) in
      let toks_s = if sp >= String.length head then "" else String.sub head (sp + 1) (String.length head - sp - 1) in
      let toks = if String.contains "SLPQU" k then parse_toks toks_s else [] in
      let pick dflt = if fuel_s = "-" then dflt toks else nat_of_int (int_of_string fuel_s) in
      let pickg dflt gtoks = if fuel_s = "-" then dflt gtoks else nat_of_int (int_of_string fuel_s) in
      let str r name = (match r with POk (out, iters) -> POk (sexp_g name out, iters) | PRaise e -> PRaise e) in
      let old r = (match r with POk (out, iters) -> POk (sexp out, iters) | PRaise e -> PRaise e) in
      let res, fuel =
        match k with
        | 'C' -> let g = parse_gtoks tkd_of_code toks_s in let f = pickg cell_fuel g in str (cell_run f g) name_of_tkd, f
        | 'R' -> let g = parse_gtoks tkd_of_code toks_s in let f = pickg row_fuel g in str (row_run f g) name_of_tkd, f
        | 'T' -> let g = parse_gtoks tkd_of_code toks_s in let f = pickg tab_fuel g in str (tab_run f g) name_of_tkd, f
        | 'F' -> let g = parse_gtoks xkind_of_code toks_s in let f = pickg pre_fuel g in str (pre_run f g) name_of_xkind, f
        | 'S' -> let f = pick sec_fuel in old (sec_run f toks), f
        | 'L' -> let f = pick lin_fuel in old (lin_run f toks), f
        | 'P' -> let f = pick par_fuel in old (par_run f toks), f
        | 'U' -> let f = pick url_fuel in old (url_run f toks), f
        | 'Q' ->
          (* the real compute_path breaks ties between equally good paths by comparing State objects (their
             addresses), so equal counts can give different paths within one run: entries with the same counts
             are consumed in order (the k-th call with these counts gets the k-th entry, the last one is reused) *)
          let table = Hashtbl.create 16 in
          List.iter (fun (c, st) -> Hashtbl.replace table c (st :: (try Hashtbl.find table c with Not_found -> [])))
            (parse_cp cp);                                   (* parse_cp returns the entries in reverse order *)
          let cpath counts =
            let key = List.map int_of_nat counts in
            (match (try Hashtbl.find table key with Not_found -> []) with
             | [] -> PRaise PValue
             | [st] -> POk st
             | st :: more -> Hashtbl.replace table key more; POk st) in
          let f = pick sq_fuel in old (sq_run cpath f toks), f
        | _ -> failwith "bad pass" in
      (match res with
       | POk (out, iters) ->
         print_string "OK "; print_string (string_of_int (int_of_nat iters)); print_char ' ';
         print_string (string_of_int (int_of_nat fuel)); print_char ' ';
         print_string out; print_char '\n'
       | PRaise e -> print_string ("RAISE " ^ exn_name e ^ "\n"))
    with
    | End_of_file -> raise End_of_file
    | Stack_overflow -> print_string "ERR stack overflow\n"
    | e -> print_string ("ERR " ^ Printexc.to_string e ^ "\n"))
  done with End_of_file -> ()
