(* line protocol (one case per line):  site|ops|redirects|rtab|images|queries
   strings = space separated code points; items separated by ';', sub-fields by ','
     ops      : kind(P|X),title,ns,revid(N = none),expanded(0|1),json,text
     redirects: src,dst          rtab: text,target (redirect matcher oracle)        images: stored title
     queries  : G,name,rev(N|int)  |  M,name,dns  |  I,name  |  F,title (fs_escape)  |  Q,name,dns (get_fqname)
   output: <file>|<answers joined by ';'>   page answer: N or title,ns,revid,expanded,text ; image answer: N or name ; K = KeyError
           READERR|... when the reader fails *)
open C14_model
let rec pos_of_int i = if i = 1 then XH else if i land 1 = 1 then XI (pos_of_int (i lsr 1)) else XO (pos_of_int (i lsr 1))
let n_of_int i = if i = 0 then N0 else Npos (pos_of_int i)
let z_of_int i = if i = 0 then Z0 else if i > 0 then Zpos (pos_of_int i) else Zneg (pos_of_int (-i))
let rec int_of_pos = function XH -> 1 | XO p -> 2 * int_of_pos p | XI p -> 2 * int_of_pos p + 1
let int_of_n = function N0 -> 0 | Npos p -> int_of_pos p
let int_of_z = function Z0 -> 0 | Zpos p -> int_of_pos p | Zneg p -> - (int_of_pos p)
let str_of_field f = List.map (fun x -> n_of_int (int_of_string x)) (List.filter (fun x -> x <> "") (String.split_on_char ' ' f))
let field_of_str s = String.concat " " (List.map (fun x -> string_of_int (int_of_n x)) s)
let items f = List.filter (fun x -> String.trim x <> "") (String.split_on_char ';' f)
let subs it = String.split_on_char ',' it
let zopt s = if String.trim s = "N" then None else Some (z_of_int (int_of_string (String.trim s)))
let page_ans = function
  | None -> "N"
  | Some p -> let m = p.p_meta in
    String.concat "," [field_of_str m.m_title; string_of_int (int_of_z m.m_ns);
                       (match m.m_revid with None -> "N" | Some v -> string_of_int (int_of_z v));
                       (if m.m_expanded then "1" else "0"); field_of_str p.p_text]
let () =
  try while true do
    let line = input_line stdin in
    (match String.split_on_char '|' line with
    | [site; ops; reds; rtab; imgs; qs] ->
      let st = site_by_name (str_of_field site) and en = site_by_name (str_of_field "101 110") in
      (match st, en with
       | Some st, Some en ->
         let ops = List.map (fun it -> match subs it with
             | [k; t; ns; rv; ex; j; tx] ->
               let r = { r_meta = { m_title = str_of_field t; m_ns = z_of_int (int_of_string (String.trim ns)); m_revid = zopt rv;
                                    m_expanded = (String.trim ex = "1") }; r_json = str_of_field j; r_text = str_of_field tx } in
               if String.trim k = "P" then WPage r else WExpanded r
             | _ -> failwith "bad op") (items ops) in
         let pairs f = List.map (fun it -> match subs it with [a; b] -> (str_of_field a, str_of_field b) | _ -> failwith "bad pair") (items f) in
         let reds = pairs reds and rtab = pairs rtab in
         let imgs = List.map str_of_field (items imgs) in
         let file = archive_file ops in
         (match archive_index ops with
          | None -> print_string ("READERR|" ^ field_of_str file ^ "\n")
          | Some ix ->
            let ans = List.map (fun it -> match subs it with
                | ["G"; name; rv] -> page_ans (q_get rtab ix reds (str_of_field name) (zopt rv))
                | ["M"; name; dns] -> (match q_norm st rtab ix reds (str_of_field name) (z_of_int (int_of_string (String.trim dns))) with
                    | KeyError -> "K" | Ok p -> page_ans p)
                | ["I"; name] -> (match q_image st en imgs (str_of_field name) with
                    | KeyError -> "K" | Ok None -> "N" | Ok (Some n) -> "S" ^ field_of_str n)
                | ["F"; t] -> "S" ^ field_of_str (fs_escape (str_of_field t))
                | ["Q"; name; dns] -> (match py_get_fqname st (str_of_field name) (z_of_int (int_of_string (String.trim dns))) with
                    | KeyError -> "K" | Ok fq -> "S" ^ field_of_str fq)
                | _ -> "BADQ") (items qs) in
            print_string (field_of_str file ^ "|" ^ String.concat ";" ans ^ "\n"))
       | _ -> print_string "NOSITE\n")
    | _ -> print_string "ERR\n");
    flush stdout
  done with End_of_file -> ()
