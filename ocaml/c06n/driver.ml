(* line protocol around the extracted fix_nesting model (coq/C06/ModelNesting.v), identity marks, real tables.
   input : one labelled tree per line, prefix form:   id cls exc nw w.. nk <kid> .. <kid>
   output: "DONE <iterations> <pairs before> <skeleton>" | "RAISED <iterations>" | "OUTOFFUEL"
   skeleton (identities of copies differ, so none are printed):  cls[:e][=w,w..]( kid kid .. )  *)
open C06n_model
let rec pos_of_int i = if i = 1 then XH else if i land 1 = 1 then XI (pos_of_int (i lsr 1)) else XO (pos_of_int (i lsr 1))
let n_of_int i = if i = 0 then N0 else Npos (pos_of_int i)
let rec int_of_pos = function XH -> 1 | XO p -> 2 * int_of_pos p | XI p -> 2 * int_of_pos p + 1
let int_of_n = function N0 -> 0 | Npos p -> int_of_pos p
let rec int_of_nat = function O -> 0 | S n -> 1 + int_of_nat n
let toks s = List.filter (fun x -> x <> "") (String.split_on_char ' ' s)
let rec take k l = if k = 0 then ([], l) else match l with x :: r -> let (a, b) = take (k - 1) r in (x :: a, b) | [] -> failwith "short"
let rec parse l =
  match l with
  | id :: c :: e :: nw :: rest ->
    let (ws, rest) = take nw rest in
    (match rest with
     | nk :: rest ->
       let rec kids k rest = if k = 0 then ([], rest) else let (t, rest) = parse rest in let (ts, rest) = kids (k - 1) rest in (t :: ts, rest) in
       let (ts, rest) = kids nk rest in
       (L ({ l_id = n_of_int id; l_cls = n_of_int c; l_exc = (e = 1); l_words = List.map n_of_int ws }, ts), rest)
     | [] -> failwith "tree")
  | _ -> failwith "tree"
let rec skel (L (a, ts)) =
  string_of_int (int_of_n a.l_cls) ^ (if a.l_exc then ":e" else "")
  ^ (if a.l_words = [] then "" else "=" ^ String.concat "," (List.map (fun w -> string_of_int (int_of_n w)) a.l_words))
  ^ "(" ^ String.concat " " (List.map skel ts) ^ ")"
let rec count t k = match nest_step forb_real invis_real eq_id t with NMoved t' -> count t' (k + 1) | _ -> k
let () =
  try while true do
    let line = input_line stdin in
    (try
      let (t, _) = parse (List.map int_of_string (toks line)) in
      let fuel = nest_fuel forb_real invis_real t in
      let k = count t 0 in
      (match fix_nesting forb_real invis_real eq_id fuel t with
       | NDone t' -> print_string (Printf.sprintf "DONE %d %d %s\n" k (int_of_nat (npairs forb_real invis_real [] t)) (skel t'))
       | NRaised -> print_string (Printf.sprintf "RAISED %d\n" k)
       | NOutOfFuel -> print_string "OUTOFFUEL\n")
    with e -> print_string ("ERROR " ^ Printexc.to_string e ^ "\n"));
    flush stdout
  done with End_of_file -> ()
