(* line protocol: fields separated by '|', each field = space separated code points.
   input : rand|k0|text|probe
   output: protected|restored|probe_restored|tuniq|tok then 5 fields per table entry (marker|tag|vlist|inner|complete)
     tuniq = 1 if every marker of the table is exactly one t_uniq token (t_uniq_at m = Some (m, [])), else 0
     tok   = 1 if every marker is one text token of the template tokenizer and strip leaves it alone
   input : 1|text          output: remove_nowiki_tags(text)   (coq/C09/PreModel.v) *)
open C09_model
let rec pos_of_int i = if i = 1 then XH else if i land 1 = 1 then XI (pos_of_int (i lsr 1)) else XO (pos_of_int (i lsr 1))
let n_of_int i = if i = 0 then N0 else Npos (pos_of_int i)
let rec int_of_pos = function XH -> 1 | XO p -> 2 * int_of_pos p | XI p -> 2 * int_of_pos p + 1
let int_of_n = function N0 -> 0 | Npos p -> int_of_pos p
let str_of_field f = List.map (fun x -> n_of_int (int_of_string x)) (List.filter (fun x -> x <> "") (String.split_on_char ' ' f))
let field_of_str s = String.concat " " (List.map (fun x -> string_of_int (int_of_n x)) s)
let () =
  try while true do
    let line = input_line stdin in
    match List.map str_of_field (String.split_on_char '|' line) with
    | [rand; k0; text; probe] ->
      let k = n_of_int (int_of_string (String.concat "" (List.map (fun x -> String.make 1 (Char.chr (int_of_n x))) k0))) in
      let (p, tbl) = protect rand k text in
      let r = restore tbl p in
      let pr = restore tbl probe in
      let tu = List.for_all (fun (m, _) -> match t_uniq_at m with Some (m', []) -> m' = m | _ -> false) tbl in
      let tk = List.for_all (fun (m, _) -> (match text_token m with (m', []) -> m' = m | _ -> false) && strip m = m) tbl in
      let ents = List.concat (List.map (fun (m, e) -> [m; e.e_tag; e.e_vlist; e.e_inner; e.e_complete]) tbl) in
      print_string (String.concat "|" (List.map field_of_str ([p; r; pr; [n_of_int (if tu then 1 else 0)]; [n_of_int (if tk then 1 else 0)]] @ ents)) ^ "\n")
    | [_one; text] ->      (* "1|text": util.remove_nowiki_tags *)
      print_string (field_of_str (remove_nowiki_tags text) ^ "\n")
    | _ -> print_string "ERR\n"
  done with End_of_file -> ()
