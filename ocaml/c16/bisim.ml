(* Bounded, exhaustive check ON THE MODEL of the statement that is not proved in Coq (C18_restart_bisim):

     for every state s reachable within d1 ops (start alphabet below) and every continuation h2 of at most d2 ops
     that uses only connection ids not used before (continuation alphabet below),
         obs (outputs of h2 from restore (save s))  =  obs (outputs of h2 from requeue_all s)

   requeue_all s = the callbacks still queued in the hub are discarded (the server stops: a finish notification that
   was not delivered yet never is - with it a waiter of a DROPPED job would still have fetched the job and deleted its
   id: A 0 0 - -;W 1 a1;T 200;Y a1 then restart keeps a1, running the loop first forgets it), then Disconnect of every
   connection that is not dead, RunLoop, RunLoop (the second turn runs the wake-ups that were queued for pullers which
   died in the first), pending random.choice answers discarded: "all workers disconnected, nobody waiting".
   obs = the outputs, where a Stats output keeps count and numjobs and the busy entries with a non-zero number (the
   outcome counters start again from zero after a restart and channel2q keeps keys of channels whose queue is empty).

   Pairs (state after restart, state after requeue_all) are explored breadth first, synchronously, with the same op
   on both sides; a pair that was seen before (ghost fields stripped) is not expanded again. *)
open C16_model

let rec pos_of_int i = if i = 1 then XH else if i land 1 = 1 then XI (pos_of_int (i lsr 1)) else XO (pos_of_int (i lsr 1))
let n i = if i = 0 then N0 else Npos (pos_of_int i)
let rec int_of_pos = function XH -> 1 | XO p -> 2 * int_of_pos p | XI p -> 2 * int_of_pos p + 1
let ni = function N0 -> 0 | Npos p -> int_of_pos p

let strip s = { s with s_handed = []; s_requeued = [] }
let key x = Digest.string (Marshal.to_string x [Marshal.No_sharing])

let requeue_all (s : state) : state =
  let live = List.filter (fun c -> c.c_st <> Dead) s.s_conns in
  let s = { s with s_hub = [] } in          (* the server stops: wake-ups still queued in the hub are lost *)
  let s1 = List.fold_left (fun s c -> fst (step s (Disconnect c.c_id))) s live in
  let s2 = fst (step s1 RunLoop) in
  let s3 = fst (step s2 RunLoop) in
  { s3 with s_choices = [] }

let obs_out (o : out) : out = match o with
  | OStats (c, k, _, busy) ->
    OStats (c, k, [], List.sort compare (List.filter (fun (_, v) -> v <> N0) busy))
  | o -> o

(* ops over workers ws (pull / disconnect / wait) and the service connection x (finish / kill / wait) *)
let ops_for ~(ws : int list) ~(x : int) ~(maxjobs : int) ~(rich : bool) (s : state) : op list =
  let ids = List.map fst s.s_ids in
  let njobs = List.length s.s_jobs in
  let names = List.sort_uniq compare (List.filter_map (fun (i, _) -> match i with JName k -> Some (ni k) | _ -> None) s.s_ids) in
  let names = List.filter (fun k -> k <= 1) (names @ [List.length names]) in
  let adds =
    List.concat_map (fun ch -> List.concat_map (fun prio ->
        (if njobs < maxjobs then [Add (n ch, n prio, None, if rich && prio = 1 then Some (n 5) else None)] else [])
        @ List.filter_map (fun nm ->
            let exists = List.exists (fun (i, _) -> i = JName (n nm)) s.s_ids in
            if exists || njobs < maxjobs then Some (Add (n ch, n prio, Some (n nm), None)) else None) names)
        [0; 1]) [0; 1] in
  let pulls = List.concat_map (fun w -> List.map (fun chs -> StartPull (n w, List.map n chs)) [[]; [0]; [1]]) ws in
  let fins = List.concat_map (fun i -> [Finish (n x, i, Some (n 7), ENone)] @ (if rich then [Finish (n x, i, None, EStr (n 3))] else [])) ids in
  let kills = List.map (fun i -> Kill (n x, [i])) ids in
  let discs = List.map (fun w -> Disconnect (n w)) ws in
  let waits = List.concat_map (fun i -> [Wait (n x, i)] @ (match ws with w :: _ when rich -> [Wait (n w, i)] | _ -> [])) ids in
  let drops = List.map (fun i -> Drop [i]) ids in
  let infos = List.map (fun i -> Info i) ids in
  adds @ pulls @ [RunLoop] @ fins @ kills @ [Tick (n 6); Tick (n 200)] @ discs @ waits @ drops @ infos
  @ [Stats; Watchdog; Advance (n 4000)]
  @ (if List.length s.s_waiters >= 2 && s.s_choices = [] then [Choice (n 1)] else [])

let run ~(d1 : int) ~(d2 : int) ~(maxjobs : int) ~(shard : int * int) ~(op_t : op -> string) =
  (* 1. start states *)
  let seen = Hashtbl.create 100000 in
  Hashtbl.replace seen (key (strip init)) ();
  let frontier = ref [ (init, []) ] in
  let starts = ref [ (init, []) ] in
  for _ = 1 to d1 do
    let next = ref [] in
    List.iter (fun (s, h) ->
        List.iter (fun o ->
            let s' = fst (step s o) in
            let k = key (strip s') in
            if not (Hashtbl.mem seen k) then begin
              Hashtbl.replace seen k ();
              next := (s', o :: h) :: !next
            end) (ops_for ~ws:[1; 2] ~x:3 ~maxjobs ~rich:true s)) !frontier;
    frontier := List.rev !next;
    starts := !frontier @ !starts
  done;
  (* 2. synchronous exploration of (restart s, requeue_all s) *)
  let pairs = Hashtbl.create 100000 in
  let nstarts = ref 0 and nsteps = ref 0 and bad = ref 0 and statsdiff = ref 0 in
  let idx = ref (-1) in
  List.iter (fun (s, h) ->
      incr idx;
      if !idx mod snd shard = fst shard then begin
      incr nstarts;
      let a0 = restart s and b0 = requeue_all s in
      let fr = ref [ (a0, b0, []) ] in
      for _ = 1 to d2 do
        let next = ref [] in
        List.iter (fun (a, b, h2) ->
            List.iter (fun o ->
                let (a', oa) = step a o and (b', ob) = step b o in
                incr nsteps;
                if List.map obs_out oa <> List.map obs_out ob then begin
                  incr bad;
                  if !bad <= 5 then
                    print_string (Printf.sprintf "MISMATCH %s | R/requeue_all | %s\n"
                                    (String.concat ";" (List.rev_map op_t h)) (String.concat ";" (List.rev_map op_t (o :: h2))))
                end else begin
                  if oa <> ob then incr statsdiff;
                  let k = key (strip a', strip b') in
                  if not (Hashtbl.mem pairs k) then begin
                    Hashtbl.replace pairs k ();
                    next := (a', b', o :: h2) :: !next
                  end
                end) (ops_for ~ws:[11; 12] ~x:13 ~maxjobs:(maxjobs + 2) ~rich:false a)) !fr;
        fr := List.rev !next
      done end) !starts;
  Printf.printf "{\"start_states\":%d,\"d1\":%d,\"d2\":%d,\"steps_compared\":%d,\"distinct_pairs\":%d,\"mismatches\":%d,\"stats_only_differences\":%d}\n"
    !nstarts d1 d2 !nsteps (Hashtbl.length pairs) !bad !statsdiff;
  if !bad > 0 then exit 1
