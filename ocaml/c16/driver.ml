(* line-protocol driver around the extracted queue model (coq/C16/Model.v).
   One op per input line, one JSON line per op: {"out":[...],"snap":{...}}.
     N                       new history (state := init)
     A ch prio name|- tmo|-  Add            P c chs|-      StartPull      L   RunLoop
     F c jid res|- err|-     Finish         K c jid,jid    Kill           T dt   Tick
     D c   Disconnect        C k  Choice    W c jid  Wait  I jid  Info    S jid v  SetInfo
     WL c jid,jid,..  rpc_qwait with several ids (ModelWaitL.xstep; the line protocol runs the extended state machine for every op)
     X     Stats             R    restart (restore (save s)): not an op of the model's alphabet
     U dt  Advance (clock only, no handletimeouts sweep)   Y jid,jid  Drop (rpc_qdrop)   G  Watchdog (dropdead)
   jid = a<n> (auto/int id) | n<n> (client string id).
   Second mode:  driver.exe enum small|full <depth> <maxjobs> <maxstates> [shard k n] [budget B] [prefix P]
   breadth-first exploration of the model's state graph over the bounded alphabet (see `alphabet`) modulo the
   symmetries described at `canon`; prints one concrete history per (canonical state, op) pair on stdout, per-depth
   counts and a final JSON line on stderr.
   Third mode:   driver.exe enumcheck small|full <depth> <maxjobs>   self test of the symmetry reduction. *)
open C16_model
let rec pos_of_int i = if i = 1 then XH else if i land 1 = 1 then XI (pos_of_int (i lsr 1)) else XO (pos_of_int (i lsr 1))
let n_of_int i = if i = 0 then N0 else Npos (pos_of_int i)
let rec int_of_pos = function XH -> 1 | XO p -> 2 * int_of_pos p | XI p -> 2 * int_of_pos p + 1
let int_of_n = function N0 -> 0 | Npos p -> int_of_pos p
let ni = int_of_n
let si n = string_of_int (int_of_n n)

let jid_s = function JAuto n -> "\"a" ^ si n ^ "\"" | JName n -> "\"n" ^ si n ^ "\""
let opt_s f = function None -> "null" | Some x -> f x
let err_s = function ENone -> "null" | EStr n -> si n
let list_s f l = "[" ^ String.concat "," (List.map f l) ^ "]"
let bool_s b = if b then "true" else "false"
let job_s j = "[" ^ String.concat "," [si j.j_serial; jid_s j.j_id; si j.j_chan; si j.j_prio; si j.j_timeout;
  bool_s j.j_done; err_s j.j_err; opt_s si j.j_res; opt_s si j.j_info; si j.j_ttl; opt_s si j.j_dl; bool_s j.j_drop] ^ "]"
let counts_s c = "[" ^ String.concat "," [si c.n_error; si c.n_timeout; si c.n_killed; si c.n_success] ^ "]"
let out_s = function
  | OJid i -> "[\"jid\"," ^ jid_s i ^ "]"
  | OBlocked -> "[\"blocked\"]"
  | ODeliver (c, chs, j) -> "[\"deliver\"," ^ si c ^ "," ^ list_s si chs ^ "," ^ job_s j ^ "]"
  | OReleased (c, j) -> "[\"released\"," ^ si c ^ "," ^ job_s j ^ "]"
  | ODied c -> "[\"died\"," ^ si c ^ "]"
  | OBusy -> "[\"busy\"]"
  | OKeyErr -> "[\"keyerr\"]"
  | OUnit -> "[\"unit\"]"
  | OInfo j -> "[\"info\"," ^ opt_s job_s j ^ "]"
  | OStats (c, n, cnt, busy) -> "[\"stats\"," ^ si c ^ "," ^ si n ^ ","
      ^ list_s (fun (k, v) -> "[" ^ si k ^ "," ^ counts_s v ^ "]") (List.sort compare (List.map (fun (k,v) -> (ni k, v)) cnt) |> List.map (fun (k,v) -> (n_of_int k, v))) ^ ","
      ^ list_s (fun (k, v) -> "[" ^ string_of_int k ^ "," ^ string_of_int v ^ "]") (List.sort compare (List.map (fun (k,v) -> (ni k, ni v)) busy)) ^ "]"

let sorted_by f l = List.sort (fun a b -> compare (f a) (f b)) l
let snap_x (s, (k : conts)) =
  let jobs = sorted_by (fun j -> ni j.j_serial) s.s_jobs in
  let ids = sorted_by (fun (i, _) -> jid_s i) s.s_ids in
  let queues = sorted_by (fun (k, _) -> ni k) s.s_queues in
  let conns = sorted_by (fun c -> ni c.c_id) (List.filter (fun c -> not (c.c_st = Idle && c.c_run = [])) s.s_conns) in
  let conn_s c =
    let st = match c.c_st with
      | Idle -> "\"idle\",null,null"
      | BPull (chs, mb) -> "\"pull\"," ^ list_s si chs ^ "," ^ opt_s si mb
      | BWait ser -> "\"wait\"," ^ list_s si (match k_get k c.c_id with Some (_, (_, all)) -> all | None -> [ser]) ^ "," ^ si ser
      | Dead -> "\"dead\",null,null" in
    "[" ^ si c.c_id ^ "," ^ st ^ "," ^ list_s (fun (i, ser) -> "[" ^ jid_s i ^ "," ^ si ser ^ "]") c.c_run ^ "]" in
  "{\"count\":" ^ si s.s_count
  ^ ",\"now\":" ^ si s.s_now
  ^ ",\"jobs\":" ^ list_s job_s jobs
  ^ ",\"ids\":" ^ list_s (fun (i, ser) -> "[" ^ jid_s i ^ "," ^ si ser ^ "]") ids
  ^ ",\"queues\":" ^ list_s (fun (k, q) -> "[" ^ si k ^ "," ^ list_s (fun (p, ser) -> "[" ^ si p ^ "," ^ si ser ^ "]") q ^ "]") queues
  ^ ",\"waiters\":" ^ list_s (fun (c, chs) -> "[" ^ si c ^ "," ^ list_s si chs ^ "]") s.s_waiters
  ^ ",\"conns\":" ^ list_s conn_s conns
  ^ ",\"tq\":" ^ list_s (fun (d, (p, ser)) -> "[" ^ si d ^ "," ^ si p ^ "," ^ si ser ^ "]") s.s_tq
  ^ ",\"cnt\":" ^ list_s (fun (k, v) -> "[" ^ si k ^ "," ^ counts_s v ^ "]") (sorted_by (fun (k, _) -> ni k) s.s_cnt)
  ^ ",\"nchoices\":" ^ string_of_int (List.length s.s_choices)
  ^ ",\"hub\":" ^ list_s (function EvNotify c -> "\"N" ^ si c ^ "\"" | EvKill c -> "\"K" ^ si c ^ "\"" | EvDone c -> "\"D" ^ si c ^ "\"") s.s_hub
  ^ ",\"handed\":" ^ list_s si s.s_handed
  ^ ",\"requeued\":" ^ list_s si s.s_requeued
  ^ "}"
let snap_s s = snap_x (s, [])

let toks line = List.filter (fun x -> x <> "") (String.split_on_char ' ' line)
let nn x = n_of_int (int_of_string x)
let optn x = if x = "-" then None else Some (nn x)
let nlist x = if x = "-" then [] else List.map nn (String.split_on_char ',' x)
let pjid x = let v = nn (String.sub x 1 (String.length x - 1)) in if x.[0] = 'a' then JAuto v else JName v
let jlist x = if x = "-" then [] else List.map pjid (String.split_on_char ',' x)
let perr x = if x = "-" then ENone else EStr (nn x)

let parse_op t = match t with
  | ["A"; ch; prio; name; tmo] -> Some (Add (nn ch, nn prio, optn name, optn tmo))
  | ["P"; c; chs] -> Some (StartPull (nn c, nlist chs))
  | ["L"] -> Some RunLoop
  | ["F"; c; i; res; e] -> Some (Finish (nn c, pjid i, optn res, perr e))
  | ["K"; c; js] -> Some (Kill (nn c, jlist js))
  | ["T"; dt] -> Some (Tick (nn dt))
  | ["D"; c] -> Some (Disconnect (nn c))
  | ["C"; k] -> Some (Choice (nn k))
  | ["W"; c; i] -> Some (Wait (nn c, pjid i))
  | ["I"; i] -> Some (Info (pjid i))
  | ["S"; i; v] -> Some (SetInfo (pjid i, nn v))
  | ["X"] -> Some Stats
  | ["U"; dt] -> Some (Advance (nn dt))
  | ["Y"; js] -> Some (Drop (jlist js))
  | ["G"] -> Some Watchdog
  | _ -> None
let parse_xop t = match t with
  | ["WL"; c; js] -> Some (WaitL (nn c, jlist js))
  | _ -> (match parse_op t with Some o -> Some (Base o) | None -> None)

(* ---------------------------------------------------------------- text form of ops (for enum) *)
let optn_t = function None -> "-" | Some n -> si n
let nlist_t l = if l = [] then "-" else String.concat "," (List.map si l)
let jid_t = function JAuto n -> "a" ^ si n | JName n -> "n" ^ si n
let op_t = function
  | Add (ch, p, name, tmo) -> Printf.sprintf "A %s %s %s %s" (si ch) (si p) (optn_t name) (optn_t tmo)
  | StartPull (c, chs) -> Printf.sprintf "P %s %s" (si c) (nlist_t chs)
  | RunLoop -> "L"
  | Finish (c, i, res, e) -> Printf.sprintf "F %s %s %s %s" (si c) (jid_t i) (optn_t res) (match e with ENone -> "-" | EStr n -> si n)
  | Kill (c, js) -> Printf.sprintf "K %s %s" (si c) (if js = [] then "-" else String.concat "," (List.map jid_t js))
  | Tick dt -> "T " ^ si dt
  | Disconnect c -> "D " ^ si c
  | Choice k -> "C " ^ si k
  | Wait (c, i) -> Printf.sprintf "W %s %s" (si c) (jid_t i)
  | Info i -> "I " ^ jid_t i
  | SetInfo (i, v) -> Printf.sprintf "S %s %s" (jid_t i) (si v)
  | Stats -> "X"
  | Advance dt -> "U " ^ si dt
  | Drop js -> "Y " ^ (if js = [] then "-" else String.concat "," (List.map jid_t js))
  | Watchdog -> "G"

(* ================================================================ bounded exploration (enum / enumcheck)

   ALPHABET (the property's quantifier: 2 channels, <= maxjobs jobs, 3 workers = connection ids 1,2,3).
   Other connection ids: 4 = a client that never pulls (issues Kill and the "somebody else reports the job
   finished" Finish); 5,6 = clients that only Wait (full mode).  A connection that is Idle with an empty
   running list and is mentioned neither in _waiters nor in the hub queue is indistinguishable from one that
   was never seen (Model.get_conn returns new_conn for an absent id), so it counts as UNUSED.

   small (C16): Add(ch, prio 0/1, auto id | client name, default timeout) while < maxjobs jobs were created (an Add under a live
     name is offered once: push returns the existing job); StartPull(w, [] | [0] | [1]) for every idle used worker and one fresh
     one; RunLoop; Finish(c, id, result 7) by every idle worker that holds the id and by client 4; Kill(4, [id]); Tick 120 (every
     job older than the default timeout expires); Disconnect(w) of used workers that are neither dead nor already disconnecting;
     Choice 1 (2) when >= 2 (3) pullers are blocked and no answer is pending; ONE rejected request (StartPull on the first busy/dead
     worker -> OBusy; the harness answers those without touching the real code).
   full (C17/C18) adds: Add with timeout 5; StartPull(w, [0;1]); Finish with error "" and "boom"; Kill by the holder; Tick 6 and
     Tick 200 instead of Tick 120; Wait(c, id) on one free waiter connection of {5,6} (so up to two clients wait on a job); Stats;
     Drop [id].
   Not offered: Disconnect of an unused worker or a second Disconnect of the same worker, Finish/Kill/StartPull on busy connections
   beyond the one representative, Info/SetInfo/Advance/Watchdog (random histories only).

   [sym = true] picks ONE representative among interchangeable fresh things (smallest unused worker id, channel
   0 when no channel occurs in the state, smallest unused client name, first free waiter connection);
   [sym = false] (only used by `enumcheck`) offers all of them.  Everything else is the same in both. *)

let uniq l = List.sort_uniq compare l
let idle_empty c = (match c.c_st with Idle -> true | _ -> false) && c.c_run = []
let hub_conns s = List.filter_map (function EvNotify c | EvKill c -> Some (ni c) | EvDone _ -> None) s.s_hub
let used_conns s =
  uniq (List.map (fun (c, _) -> ni c) s.s_waiters @ hub_conns s
        @ List.filter_map (fun c -> if idle_empty c then None else Some (ni c.c_id)) s.s_conns)

(* serials a future step can still look at; queue and timeout-queue entries of finished jobs are inert
   (preen / timeouts_loop / count_undone skip them) and do not count *)
let reachable_serials s =
  let undone (_, ser) = not (is_done s.s_jobs ser) in
  uniq (List.map (fun (_, ser) -> ni ser) s.s_ids
        @ List.concat_map (fun (_, q) -> List.map (fun (_, ser) -> ni ser) (List.filter undone q)) s.s_queues
        @ List.map (fun (_, (_, ser)) -> ni ser) (List.filter (fun (_, k) -> undone k) s.s_tq)
        @ List.concat_map (fun c -> List.map (fun (_, ser) -> ni ser) c.c_run
                                   @ (match c.c_st with BPull (_, Some ser) -> [ni ser] | BWait ser -> [ni ser] | _ -> [])) s.s_conns
        @ List.filter_map (function EvDone ser -> Some (ni ser) | _ -> None) s.s_hub)

let retained_jobs s =
  let r = reachable_serials s in
  List.sort (fun a b -> compare (ni a.j_serial) (ni b.j_serial)) (List.filter (fun j -> List.mem (ni j.j_serial) r) s.s_jobs)

let chans_in s rj =
  uniq (List.map (fun j -> ni j.j_chan) rj @ List.map (fun (k, _) -> ni k) s.s_queues @ List.map (fun (k, _) -> ni k) s.s_cnt
        @ List.concat_map (fun (_, chs) -> List.map ni chs) s.s_waiters
        @ List.concat_map (fun c -> match c.c_st with BPull (chs, _) -> List.map ni chs | _ -> []) s.s_conns)

let names_in s rj =
  let nm = function JName k -> [ni k] | JAuto _ -> [] in
  uniq (List.concat_map (fun j -> nm j.j_id) rj @ List.concat_map (fun (i, _) -> nm i) s.s_ids
        @ List.concat_map (fun c -> List.concat_map (fun (i, _) -> nm i) c.c_run) s.s_conns)

let alphabet ~full ~sym maxjobs (s : state) : op list =
  let n = n_of_int in
  let rj = retained_jobs s in
  let used = used_conns s in
  let wused = List.filter (fun c -> c >= 1 && c <= 3) used in
  let wfree = List.filter (fun c -> not (List.mem c wused)) [1; 2; 3] in
  let wfresh = if sym then (match wfree with [] -> [] | x :: _ -> [x]) else wfree in
  let idle w = is_idle (n w) s in
  let conn w = get_conn s.s_conns (n w) in
  let chans = if sym && chans_in s rj = [] then [0] else [0; 1] in
  let nused = names_in s rj in
  let nfree = List.filter (fun k -> not (List.mem k nused)) [0; 1] in
  let names = if sym then nused @ (match nfree with [] -> [] | x :: _ -> [x]) else [0; 1] in
  let njobs = ni s.s_count in
  let ids = List.map fst s.s_ids in
  let room = njobs < maxjobs in
  let adds =
    List.concat_map (fun ch ->
      List.concat_map (fun prio ->
        (if room then [Add (n ch, n prio, None, None)] @ (if full then [Add (n ch, n prio, None, Some (n 5))] else []) else [])
        @ List.concat_map (fun nm ->
            let live = match id_lookup s.s_ids (JName (n nm)) with
              | Some ser -> (match getjob s.s_jobs ser with Some j -> not (err_is_killed j.j_err) | None -> false)
              | None -> false in
            if live then (if ch = 0 && prio = 0 then [Add (n 0, n 0, Some (n nm), None)] else [])   (* push returns the existing job whatever channel/priority *)
            else if room then [Add (n ch, n prio, Some (n nm), if full && prio = 0 then Some (n 5) else None)] else []) names)
        [0; 1]) chans in
  let pullsets = [[]; [0]] @ (if List.length chans > 1 then [[1]] else []) @ (if full then [[0; 1]] else []) in
  let pulls = List.concat_map (fun w -> List.map (fun chs -> StartPull (n w, List.map n chs)) pullsets)
                (List.filter idle wused @ wfresh) in
  let holders i = List.filter (fun w -> idle w && List.exists (fun (k, _) -> jid_eqb k i) (conn w).c_run) wused in
  let fin_variants c i = [Finish (n c, i, Some (n 7), ENone)]
                         @ (if full then [Finish (n c, i, None, EStr (n 0)); Finish (n c, i, None, EStr (n 3))] else []) in
  let fins = List.concat_map (fun i -> List.concat_map (fun c -> fin_variants c i) (holders i @ [4])) ids in
  let kills = List.concat_map (fun i -> [Kill (n 4, [i])] @ (if full then List.map (fun w -> Kill (n w, [i])) (holders i) else [])) ids in
  let ticks = if full then [Tick (n 6); Tick (n 200)] else [Tick (n 120)] in
  let kill_pending w = List.exists (function EvKill c -> ni c = w | _ -> false) s.s_hub in
  let discs = List.filter_map (fun w -> match (conn w).c_st with Dead -> None | _ -> if kill_pending w then None else Some (Disconnect (n w))) wused in
  let choice = if List.length s.s_waiters >= 2 && s.s_choices = [] then [Choice (n 1)] @ (if List.length s.s_waiters >= 3 then [Choice (n 2)] else []) else [] in
  let busy = match List.filter (fun w -> not (idle w)) wused with [] -> [] | w :: _ -> [StartPull (n w, [])] in
  let extra =
    if not full then [] else begin
      let wfree = List.filter idle [5; 6] in
      let wconn = if sym then (match wfree with [] -> [] | x :: _ -> [x]) else wfree in
      List.concat_map (fun i -> List.map (fun c -> Wait (n c, i)) wconn) ids @ [Stats] @ List.map (fun i -> Drop [i]) ids
    end in
  adds @ pulls @ [RunLoop] @ fins @ kills @ ticks @ discs @ choice @ busy @ extra

(* CANONICAL FORM.  canon s = canon s' implies: s and s' are related by
     - a permutation of connection ids,
     - optionally the swap of channels 0 and 1,
     - a permutation of the client-chosen names n0/n1,
     - a shift of all absolute times (s_now, job deadlines, timeout-queue deadlines),
   after forgetting what no step ever reads: the ghosts s_handed/s_requeued, the order of the association lists
   s_jobs/s_ids/s_queues/s_cnt/s_conns (looked up by key only; s_conns order shows only in the order of `released`
   outputs of one loop turn, which the comparison sorts), the order inside a channel list of a puller (used through
   mem / min only), Idle connections with an empty running list, queue and timeout-queue entries of finished jobs,
   job objects no id/queue/mailbox/running list/waiter/hub event refers to, and - only when [obs] is false, i.e. when the
   alphabet has no Wait/Info op that prints a finished job - the timeout field of finished jobs.
   Serials are NOT renamed (queue order = serial order, server-chosen ids = serials), s_count (= number of jobs
   created) is kept, counters are kept.
   The labelling of connections is canonical: waiters in _waiters order, then connections in hub-event order, then
   the remaining ones sorted by their (already renamed) contents; connections with identical contents are
   interchangeable.  Names: order of first occurrence among the retained jobs by serial.  Channels: both
   renderings are computed and the smaller one is taken. *)
type cform = {
  k_count : int; k_jobs : int list list; k_ids : (int * int * int) list; k_queues : (int * (int * int) list) list;
  k_waiters : (int * int list) list; k_conns : (int * int list * (int * int * int) list) list; k_tq : (int * int * int) list;
  k_cnt : (int * int list) list; k_choices : int list; k_hub : (int * int) list }

let canon_with ~obs (s : state) (rj : job list) (chm : int -> int) : cform =
  let now = ni s.s_now in
  let names = ref [] in
  List.iter (fun j -> match j.j_id with JName k -> if not (List.mem_assoc (ni k) !names) then names := (ni k, List.length !names) :: !names | _ -> ()) rj;
  let jid = function JAuto k -> (0, ni k) | JName k -> (1, (try List.assoc (ni k) !names with Not_found -> 100 + ni k)) in
  let optn = function None -> -1 | Some x -> ni x in
  let errn = function ENone -> -1 | EStr k -> ni k in
  let undone (_, ser) = not (is_done s.s_jobs ser) in
  let chs_c l = List.sort compare (List.map (fun c -> chm (ni c)) l) in
  let job_c j =
    let (a, b) = jid j.j_id in
    [ni j.j_serial; a; b; chm (ni j.j_chan); ni j.j_prio; (if j.j_done && not obs then 0 else ni j.j_timeout - now);
     (if j.j_done then 1 else 0); errn j.j_err; optn j.j_res; optn j.j_info; ni j.j_ttl;
     (match j.j_dl with None -> min_int | Some d -> ni d - now); (if j.j_drop then 1 else 0)] in
  let run_c l = List.sort compare (List.map (fun (i, ser) -> let (a, b) = jid i in (a, b, ni ser)) l) in
  let st_c = function
    | Idle -> [0]
    | BPull (chs, mb) -> 1 :: optn mb :: chs_c chs
    | BWait ser -> [2; ni ser]
    | Dead -> [3] in
  let lab = ref [] in
  let touch c = if not (List.mem_assoc c !lab) then lab := (c, List.length !lab + 1) :: !lab in
  List.iter (fun (c, _) -> touch (ni c)) s.s_waiters;
  List.iter touch (hub_conns s);
  let live = List.filter (fun c -> not (idle_empty c)) s.s_conns in
  let rest = List.filter (fun c -> not (List.mem_assoc (ni c.c_id) !lab)) live in
  let rest = List.sort compare (List.map (fun c -> ((st_c c.c_st, run_c c.c_run), ni c.c_id)) rest) in
  List.iter (fun (_, c) -> touch c) rest;
  let l c = List.assoc (ni c) !lab in
  { k_count = ni s.s_count;
    k_jobs = List.map job_c rj;
    k_ids = List.sort compare (List.map (fun (i, ser) -> let (a, b) = jid i in (a, b, ni ser)) s.s_ids);
    k_queues = List.sort compare (List.map (fun (k, q) -> (chm (ni k), List.map (fun (p, ser) -> (ni p, ni ser)) (List.filter undone q))) s.s_queues);
    k_waiters = List.map (fun (c, chs) -> (l c, chs_c chs)) s.s_waiters;
    k_conns = List.sort compare (List.map (fun c -> (l c.c_id, st_c c.c_st, run_c c.c_run)) live);
    k_tq = List.map (fun (d, (p, ser)) -> (ni d - now, ni p, ni ser)) (List.filter (fun (_, k) -> undone k) s.s_tq);
    k_cnt = List.sort compare (List.map (fun (k, c) -> (chm (ni k), [ni c.n_error; ni c.n_timeout; ni c.n_killed; ni c.n_success])) s.s_cnt);
    k_choices = List.map ni s.s_choices;
    k_hub = List.map (function EvNotify c -> (0, l c) | EvKill c -> (1, l c) | EvDone ser -> (2, ni ser)) s.s_hub }

let canon ~obs s =
  let rj = retained_jobs s in
  let a = canon_with ~obs s rj (fun c -> c) in
  let b = canon_with ~obs s rj (fun c -> if c = 0 then 1 else if c = 1 then 0 else c) in
  if compare a b <= 0 then a else b

let digest_of x = Digest.string (Marshal.to_string x [Marshal.No_sharing])
let key_reduced ~obs s = digest_of (canon ~obs s)
let key_plain s = digest_of { s with s_handed = []; s_requeued = [] }

let json_ints l = "[" ^ String.concat "," (List.map string_of_int l) ^ "]"

(* breadth-first exploration.  [seen] holds 16-byte digests only; the frontier holds one concrete representative state
   per new canonical state with the (reversed) concrete history that reached it.  One history is printed per
   (canonical state of depth d-1, op) pair - except when a print budget is given and the estimated number of pairs of a
   depth exceeds the share of the budget left for it: then every stride-th pair of that depth is printed (the pairs are
   all enumerated and counted).  With `shard k n`, depths <= prefix are explored by every shard (printed by shard 0
   only) and the depth-`prefix` frontier is dealt round-robin. *)
let enum ~full ~depth ~maxjobs ~maxstates ~shard ~budget ~prefix =
  let obs = full in
  let seen = Hashtbl.create 1000003 in
  Hashtbl.replace seen (key_reduced ~obs init) ();
  let frontier = ref [ (init, []) ] in
  let truncated = ref false in
  let states_pd = ref [] and trans_pd = ref [] and printed_pd = ref [] and stride_pd = ref [] and front_pd = ref [] in
  let printed_total = ref 0 in
  let (sk, sn) = shard in
  let d = ref 0 in
  let branching = ref 10.0 in
  let buf = Buffer.create 65536 in
  while !d < depth && !frontier <> [] do
    incr d;
    let nfront = List.length !frontier in
    let est = int_of_float (float_of_int nfront *. !branching) in
    let stride =
      if budget <= 0 then 1 else begin
        let left = max 0 (budget - !printed_total) in
        if est <= left then 1 else begin
          let share = max 1 (left / (depth - !d + 1)) in
          (est + share - 1) / share
        end
      end in
    let printing = sn <= 1 || !d > prefix || sk = 0 in
    let last = !d = depth in
    let next = ref [] and ntrans = ref 0 and nnew = ref 0 and nprinted = ref 0 in
    List.iter (fun (s, h) ->
      List.iter (fun o ->
        let h' = o :: h in
        if printing && !ntrans mod stride = 0 then begin
          incr nprinted;
          Buffer.clear buf;
          List.iteri (fun i x -> if i > 0 then Buffer.add_char buf ';'; Buffer.add_string buf (op_t x)) (List.rev h');
          Buffer.add_char buf '\n';
          print_string (Buffer.contents buf)
        end;
        incr ntrans;
        if not last then begin
          let (s', _) = step s o in
          let k = key_reduced ~obs s' in
          if not (Hashtbl.mem seen k) then begin
            if Hashtbl.length seen < maxstates then begin
              Hashtbl.replace seen k ();
              incr nnew;
              next := (s', h') :: !next
            end else truncated := true
          end
        end) (alphabet ~full ~sym:true maxjobs s)) !frontier;
    if nfront > 0 && !ntrans > 0 then branching := float_of_int !ntrans /. float_of_int nfront;
    let nx = List.rev !next in
    let nx = if sn > 1 && !d = prefix then List.filteri (fun i _ -> i mod sn = sk) nx else nx in
    frontier := nx;
    printed_total := !printed_total + !nprinted;
    states_pd := (if last then -1 else !nnew) :: !states_pd; trans_pd := !ntrans :: !trans_pd;
    printed_pd := !nprinted :: !printed_pd; stride_pd := stride :: !stride_pd; front_pd := List.length nx :: !front_pd;
    prerr_string (Printf.sprintf "depth %d: new canonical states %s, transitions %d (printed %d, stride %d), frontier %d, cumulative states %d%s\n"
                    !d (if last then "n/a (last depth: successors not computed)" else string_of_int !nnew) !ntrans !nprinted stride
                    (List.length nx) (Hashtbl.length seen) (if !truncated then " TRUNCATED" else ""));
    flush stderr
  done;
  flush stdout;
  prerr_string (Printf.sprintf "{\"mode\":\"%s\",\"depth\":%d,\"maxjobs\":%d,\"states_per_depth\":%s,\"transitions_per_depth\":%s,\"printed_per_depth\":%s,\"stride_per_depth\":%s,\"frontier_per_depth\":%s,\"states_total\":%d,\"shard\":[%d,%d],\"prefix\":%d,\"truncated\":%s}\n"
                  (if full then "full" else "small") !d maxjobs (json_ints (List.rev !states_pd)) (json_ints (List.rev !trans_pd))
                  (json_ints (List.rev !printed_pd)) (json_ints (List.rev !stride_pd)) (json_ints (List.rev !front_pd))
                  (Hashtbl.length seen) sk sn prefix (bool_s !truncated))

(* self test of the reduction: the plain exploration (key = the state itself minus the two ghost lists, alphabet without
   the "one representative of the fresh things" choice) against the reduced one.
   (1) for every depth k the set of canonical forms of the plain states first reached at depth k must be the set of canonical
       states the reduced exploration first reaches at depth k;
   (2) every plain transition (s, op, outputs, s') must have a reduced transition with the same
       (canon s, signature of the outputs, canon s'), where the signature forgets connection ids, channel numbers, client names
       and absolute times (kinds of the outputs, serials and the other fields of the job records, counter values): states that
       are merged although they answer differently would show up here. *)
let out_sig (outs : out list) =
  let optn = function None -> -1 | Some x -> ni x in
  let job_g j = [ni j.j_serial; ni j.j_prio; (if j.j_done then 1 else 0); (match j.j_err with ENone -> -1 | EStr k -> ni k);
                 optn j.j_res; optn j.j_info; ni j.j_ttl; (if j.j_drop then 1 else 0)] in
  List.sort compare (List.map (function
    | OJid (JAuto k) -> [0; ni k] | OJid (JName _) -> [0; -1]
    | OBlocked -> [1]
    | ODeliver (_, chs, j) -> 2 :: List.length chs :: job_g j
    | OReleased (_, j) -> 3 :: job_g j
    | ODied _ -> [4] | OBusy -> [5] | OKeyErr -> [6] | OUnit -> [7]
    | OInfo None -> [8] | OInfo (Some j) -> 8 :: job_g j
    | OStats (c, nj, cnt, busy) ->
      9 :: ni c :: ni nj :: List.concat (List.sort compare (List.map (fun (_, v) -> [ni v.n_error; ni v.n_timeout; ni v.n_killed; ni v.n_success]) cnt))
      @ (-2 :: List.sort compare (List.map (fun (_, v) -> ni v) busy))) outs)

let enumcheck ~full ~depth ~maxjobs =
  let obs = full in
  let explore ~sym ~key ~on_state ~on_trans =
    let seen = Hashtbl.create 100003 in
    Hashtbl.replace seen (key init) ();
    on_state 0 init [];
    let frontier = ref [(init, [])] and ntr = ref [] and nst = ref [] in
    for d = 1 to depth do
      let next = ref [] and t = ref 0 in
      List.iter (fun (s, h) ->
        let cs = canon ~obs s in
        List.iter (fun o ->
          incr t;
          let (s', outs) = step s o in
          on_trans cs outs s' (o :: h);
          let k = key s' in
          if not (Hashtbl.mem seen k) then begin Hashtbl.replace seen k (); on_state d s' (o :: h); next := (s', o :: h) :: !next end)
          (alphabet ~full ~sym maxjobs s)) !frontier;
      frontier := List.rev !next; ntr := !t :: !ntr; nst := List.length !frontier :: !nst
    done;
    (List.rev !nst, List.rev !ntr) in
  let tkey cs outs s' = digest_of (cs, out_sig outs, canon ~obs s') in
  let red = Hashtbl.create 100003 in                (* canonical digest -> depth of first visit, reduced exploration *)
  let redt = Hashtbl.create 100003 in               (* transition digests of the reduced exploration *)
  let (rs, rt) = explore ~sym:true ~key:(key_reduced ~obs) ~on_state:(fun d s _ -> Hashtbl.replace red (key_reduced ~obs s) d)
      ~on_trans:(fun cs outs s' _ -> Hashtbl.replace redt (tkey cs outs s') ()) in
  let pl = Hashtbl.create 100003 in                 (* canonical digest -> least depth, plain exploration *)
  let plt = Hashtbl.create 100003 in
  let (ps, pt) = explore ~sym:false ~key:key_plain ~on_state:(fun d s h ->
      let k = key_reduced ~obs s in if not (Hashtbl.mem pl k) then Hashtbl.replace pl k (d, h))
      ~on_trans:(fun cs outs s' h -> let k = tkey cs outs s' in if not (Hashtbl.mem plt k) then Hashtbl.replace plt k h) in
  let missing = ref 0 and deeper = ref 0 and extra = ref 0 and tmissing = ref 0 and textra = ref 0 in
  let show h = String.concat ";" (List.rev_map op_t h) in
  Hashtbl.iter (fun k (d, h) -> match Hashtbl.find_opt red k with
      | None -> incr missing; if !missing <= 5 then Printf.printf "missing from reduced: %s\n" (show h)
      | Some d' -> if d' <> d then begin incr deeper; if !deeper <= 5 then Printf.printf "plain depth %d, reduced depth %d: %s\n" d d' (show h) end) pl;
  Hashtbl.iter (fun k _ -> if not (Hashtbl.mem pl k) then incr extra) red;
  Hashtbl.iter (fun k h -> if not (Hashtbl.mem redt k) then begin incr tmissing; if !tmissing <= 5 then Printf.printf "transition missing from reduced: %s\n" (show h) end) plt;
  Hashtbl.iter (fun k _ -> if not (Hashtbl.mem plt k) then incr textra) redt;
  Printf.printf "plain   : states per depth %s transitions per depth %s\n" (json_ints ps) (json_ints pt);
  Printf.printf "reduced : states per depth %s transitions per depth %s\n" (json_ints rs) (json_ints rt);
  Printf.printf "canonical forms of plain states: %d; reduced states: %d; missing from reduced: %d; found at another depth: %d; reduced but not plain: %d\n"
    (Hashtbl.length pl) (Hashtbl.length red) !missing !deeper !extra;
  Printf.printf "distinct (canonical state, output signature, canonical successor) of plain transitions: %d; of reduced transitions: %d; plain not in reduced: %d; reduced not in plain: %d\n"
    (Hashtbl.length plt) (Hashtbl.length redt) !tmissing !textra;
  let ok = !missing = 0 && !deeper = 0 && !extra = 0 && !tmissing = 0 && !textra = 0 in
  print_string (if ok then "OK\n" else "FAILED\n");
  if not ok then exit 1

let () =
  let argv = Sys.argv in
  let argc = Array.length argv in
  if argc > 1 && argv.(1) = "enum" then begin
    (* driver.exe enum small|full <depth> <maxjobs> <maxstates> [shard k n] [budget B] [prefix P] *)
    let shard = ref (0, 1) and budget = ref 0 and prefix = ref 3 in
    let i = ref 6 in
    while !i < argc do
      (match argv.(!i) with
       | "shard" -> shard := (int_of_string argv.(!i + 1), int_of_string argv.(!i + 2)); i := !i + 3
       | "budget" -> budget := int_of_string argv.(!i + 1); i := !i + 2
       | "prefix" -> prefix := int_of_string argv.(!i + 1); i := !i + 2
       | x -> prerr_string ("bad argument " ^ x ^ "\n"); exit 2)
    done;
    enum ~full:(argv.(2) = "full") ~depth:(int_of_string argv.(3)) ~maxjobs:(int_of_string argv.(4))
      ~maxstates:(int_of_string argv.(5)) ~shard:!shard ~budget:!budget ~prefix:!prefix
  end else if argc > 1 && argv.(1) = "enumcheck" then
    enumcheck ~full:(argv.(2) = "full") ~depth:(int_of_string argv.(3)) ~maxjobs:(int_of_string argv.(4))
  else if argc > 1 && argv.(1) = "bisim" then
    (* driver.exe bisim <d1> <d2> <maxjobs> <k> <n> : bounded check of C18_restart_bisim on the model, see bisim.ml *)
    Bisim.run ~d1:(int_of_string argv.(2)) ~d2:(int_of_string argv.(3)) ~maxjobs:(int_of_string argv.(4))
      ~shard:(int_of_string argv.(5), int_of_string argv.(6)) ~op_t
  else begin
    let st = ref xinit in
    try while true do
      let line = input_line stdin in
      match toks line with
      | ["N"] -> st := xinit; print_string "{\"out\":[],\"snap\":null}\n"; flush stdout
      | ["R"] -> st := xrestart !st; print_string ("{\"out\":[[\"unit\"]],\"snap\":" ^ snap_x !st ^ "}\n"); flush stdout
      | t -> (match parse_xop t with
          | Some o -> let (s', outs) = xstep !st o in st := s';
            print_string ("{\"out\":" ^ list_s out_s outs ^ ",\"snap\":" ^ snap_x s' ^ "}\n"); flush stdout
          | None -> print_string "{\"error\":\"parse\"}\n"; flush stdout)
    done with End_of_file -> ()
  end
