(* line-protocol driver around the extracted queue model (coq/C16/Model.v).
   One op per input line, one JSON line per op: {"out":[...],"snap":{...}}.
     N                       new history (state := init)
     A ch prio name|- tmo|-  Add            P c chs|-      StartPull      L   RunLoop
     F c jid res|- err|-     Finish         K c jid,jid    Kill           T dt   Tick
     D c   Disconnect        C k  Choice    W c jid  Wait  I jid  Info    S jid v  SetInfo
     X     Stats             R    restart (restore (save s)): not an op of the model's alphabet
     U dt  Advance (clock only, no handletimeouts sweep)   Y jid,jid  Drop (rpc_qdrop)   G  Watchdog (dropdead)
   jid = a<n> (auto/int id) | n<n> (client string id).
   Second mode:  driver.exe enum <depth> <maxstates>  : breadth-first exploration of the model's
   state graph over the bounded alphabet (see `alphabet`), prints one representative history per
   (distinct state, op) pair. *)
open C16_model
let rec pos_of_int i = if i = 1 then XH else if i land 1 = 1 then XI (pos_of_int (i lsr 1)) else XO (pos_of_int (i lsr 1))
let n_of_int i = if i = 0 then N0 else Npos (pos_of_int i)
let rec int_of_pos = function XH -> 1 | XO p -> 2 * int_of_pos p | XI p -> 2 * int_of_pos p + 1
let int_of_n = function N0 -> 0 | Npos p -> int_of_pos p
let ni = int_of_n
let si n = string_of_int (int_of_n n)

let jid_s = function JAuto n -> "\"a" ^ si n ^ "\"" | JName n -> "\"n" ^ si n ^ "\""
let opt_s f = function None -> "null" | Some x -> f x
let err_s = function ENone -> "null" | EStr n -> si n
let list_s f l = "[" ^ String.concat "," (List.map f l) ^ "]"
let bool_s b = if b then "true" else "false"
let job_s j = "[" ^ String.concat "," [si j.j_serial; jid_s j.j_id; si j.j_chan; si j.j_prio; si j.j_timeout;
  bool_s j.j_done; err_s j.j_err; opt_s si j.j_res; opt_s si j.j_info; si j.j_ttl; opt_s si j.j_dl; bool_s j.j_drop] ^ "]"
let counts_s c = "[" ^ String.concat "," [si c.n_error; si c.n_timeout; si c.n_killed; si c.n_success] ^ "]"
let out_s = function
  | OJid i -> "[\"jid\"," ^ jid_s i ^ "]"
  | OBlocked -> "[\"blocked\"]"
  | ODeliver (c, chs, j) -> "[\"deliver\"," ^ si c ^ "," ^ list_s si chs ^ "," ^ job_s j ^ "]"
  | OReleased (c, j) -> "[\"released\"," ^ si c ^ "," ^ job_s j ^ "]"
  | ODied c -> "[\"died\"," ^ si c ^ "]"
  | OBusy -> "[\"busy\"]"
  | OKeyErr -> "[\"keyerr\"]"
  | OUnit -> "[\"unit\"]"
  | OInfo j -> "[\"info\"," ^ opt_s job_s j ^ "]"
  | OStats (c, n, cnt, busy) -> "[\"stats\"," ^ si c ^ "," ^ si n ^ ","
      ^ list_s (fun (k, v) -> "[" ^ si k ^ "," ^ counts_s v ^ "]") (List.sort compare (List.map (fun (k,v) -> (ni k, v)) cnt) |> List.map (fun (k,v) -> (n_of_int k, v))) ^ ","
      ^ list_s (fun (k, v) -> "[" ^ string_of_int k ^ "," ^ string_of_int v ^ "]") (List.sort compare (List.map (fun (k,v) -> (ni k, ni v)) busy)) ^ "]"

let sorted_by f l = List.sort (fun a b -> compare (f a) (f b)) l
let snap_s s =
  let jobs = sorted_by (fun j -> ni j.j_serial) s.s_jobs in
  let ids = sorted_by (fun (i, _) -> jid_s i) s.s_ids in
  let queues = sorted_by (fun (k, _) -> ni k) s.s_queues in
  let conns = sorted_by (fun c -> ni c.c_id) (List.filter (fun c -> not (c.c_st = Idle && c.c_run = [])) s.s_conns) in
  let conn_s c =
    let st = match c.c_st with
      | Idle -> "\"idle\",null,null"
      | BPull (chs, mb) -> "\"pull\"," ^ list_s si chs ^ "," ^ opt_s si mb
      | BWait ser -> "\"wait\",null," ^ si ser
      | Dead -> "\"dead\",null,null" in
    "[" ^ si c.c_id ^ "," ^ st ^ "," ^ list_s (fun (i, ser) -> "[" ^ jid_s i ^ "," ^ si ser ^ "]") c.c_run ^ "]" in
  "{\"count\":" ^ si s.s_count
  ^ ",\"now\":" ^ si s.s_now
  ^ ",\"jobs\":" ^ list_s job_s jobs
  ^ ",\"ids\":" ^ list_s (fun (i, ser) -> "[" ^ jid_s i ^ "," ^ si ser ^ "]") ids
  ^ ",\"queues\":" ^ list_s (fun (k, q) -> "[" ^ si k ^ "," ^ list_s (fun (p, ser) -> "[" ^ si p ^ "," ^ si ser ^ "]") q ^ "]") queues
  ^ ",\"waiters\":" ^ list_s (fun (c, chs) -> "[" ^ si c ^ "," ^ list_s si chs ^ "]") s.s_waiters
  ^ ",\"conns\":" ^ list_s conn_s conns
  ^ ",\"tq\":" ^ list_s (fun (d, (p, ser)) -> "[" ^ si d ^ "," ^ si p ^ "," ^ si ser ^ "]") s.s_tq
  ^ ",\"cnt\":" ^ list_s (fun (k, v) -> "[" ^ si k ^ "," ^ counts_s v ^ "]") (sorted_by (fun (k, _) -> ni k) s.s_cnt)
  ^ ",\"nchoices\":" ^ string_of_int (List.length s.s_choices)
  ^ ",\"hub\":" ^ list_s (function EvNotify c -> "\"N" ^ si c ^ "\"" | EvKill c -> "\"K" ^ si c ^ "\"" | EvDone c -> "\"D" ^ si c ^ "\"") s.s_hub
  ^ ",\"handed\":" ^ list_s si s.s_handed
  ^ ",\"requeued\":" ^ list_s si s.s_requeued
  ^ "}"

let toks line = List.filter (fun x -> x <> "") (String.split_on_char ' ' line)
let nn x = n_of_int (int_of_string x)
let optn x = if x = "-" then None else Some (nn x)
let nlist x = if x = "-" then [] else List.map nn (String.split_on_char ',' x)
let pjid x = let v = nn (String.sub x 1 (String.length x - 1)) in if x.[0] = 'a' then JAuto v else JName v
let jlist x = if x = "-" then [] else List.map pjid (String.split_on_char ',' x)
let perr x = if x = "-" then ENone else EStr (nn x)

let parse_op t = match t with
  | ["A"; ch; prio; name; tmo] -> Some (Add (nn ch, nn prio, optn name, optn tmo))
  | ["P"; c; chs] -> Some (StartPull (nn c, nlist chs))
  | ["L"] -> Some RunLoop
  | ["F"; c; i; res; e] -> Some (Finish (nn c, pjid i, optn res, perr e))
  | ["K"; c; js] -> Some (Kill (nn c, jlist js))
  | ["T"; dt] -> Some (Tick (nn dt))
  | ["D"; c] -> Some (Disconnect (nn c))
  | ["C"; k] -> Some (Choice (nn k))
  | ["W"; c; i] -> Some (Wait (nn c, pjid i))
  | ["I"; i] -> Some (Info (pjid i))
  | ["S"; i; v] -> Some (SetInfo (pjid i, nn v))
  | ["X"] -> Some Stats
  | ["U"; dt] -> Some (Advance (nn dt))
  | ["Y"; js] -> Some (Drop (jlist js))
  | ["G"] -> Some Watchdog
  | _ -> None

(* ---------------------------------------------------------------- text form of ops (for enum) *)
let optn_t = function None -> "-" | Some n -> si n
let nlist_t l = if l = [] then "-" else String.concat "," (List.map si l)
let jid_t = function JAuto n -> "a" ^ si n | JName n -> "n" ^ si n
let op_t = function
  | Add (ch, p, name, tmo) -> Printf.sprintf "A %s %s %s %s" (si ch) (si p) (optn_t name) (optn_t tmo)
  | StartPull (c, chs) -> Printf.sprintf "P %s %s" (si c) (nlist_t chs)
  | RunLoop -> "L"
  | Finish (c, i, res, e) -> Printf.sprintf "F %s %s %s %s" (si c) (jid_t i) (optn_t res) (match e with ENone -> "-" | EStr n -> si n)
  | Kill (c, js) -> Printf.sprintf "K %s %s" (si c) (if js = [] then "-" else String.concat "," (List.map jid_t js))
  | Tick dt -> "T " ^ si dt
  | Disconnect c -> "D " ^ si c
  | Choice k -> "C " ^ si k
  | Wait (c, i) -> Printf.sprintf "W %s %s" (si c) (jid_t i)
  | Info i -> "I " ^ jid_t i
  | SetInfo (i, v) -> Printf.sprintf "S %s %s" (jid_t i) (si v)
  | Stats -> "X"
  | Advance dt -> "U " ^ si dt
  | Drop js -> "Y " ^ (if js = [] then "-" else String.concat "," (List.map jid_t js))
  | Watchdog -> "G"

(* bounded alphabet of the property's quantifier: 2 channels, <= maxjobs jobs, 3 workers; symmetry reduction:
   worker k+1 is used only after worker k was used; client id n1 only after n0; the second channel only after
   the first; Choice only when it matters (two or more blocked pullers). *)
let alphabet ~full maxjobs (s : state) : op list =
  let n = n_of_int in
  let nconn = List.length s.s_conns in
  let workers = List.filteri (fun i _ -> i <= nconn) [1; 2; 3] in
  let chans_used = List.sort_uniq compare (List.map (fun j -> ni j.j_chan) s.s_jobs
                   @ List.concat_map (fun (_, chs) -> List.map ni chs) s.s_waiters) in
  let chans = if chans_used = [] then [0] else [0; 1] in
  let names_used = List.sort_uniq compare (List.filter_map (fun (i, _) -> match i with JName k -> Some (ni k) | _ -> None) s.s_ids) in
  let names = names_used @ [List.length names_used] in
  let names = List.filter (fun k -> k <= 1) names in
  let njobs = List.length s.s_jobs in
  let ids = List.map fst s.s_ids in
  let adds =
    List.concat_map (fun ch ->
      List.concat_map (fun prio ->
        (if njobs < maxjobs then [Add (n ch, n prio, None, None)] @ (if full then [Add (n ch, n prio, None, Some (n 5))] else []) else [])
        @ List.concat_map (fun nm ->
            let exists = List.mem nm names_used in
            if exists || njobs < maxjobs then [Add (n ch, n prio, Some (n nm), if full && prio = 0 then Some (n 5) else None)] else []) names)
        [0; 1]) chans in
  let pulls = List.concat_map (fun w -> List.map (fun chs -> StartPull (n w, List.map n chs))
                ([[]; [0]] @ (if List.length chans > 1 then [[1]] @ (if full then [[0; 1]] else []) else []))) workers in
  let fins = List.concat_map (fun w -> List.concat_map (fun i ->
                 [Finish (n w, i, Some (n 7), ENone)] @ (if full then [Finish (n w, i, None, EStr (n 0)); Finish (n w, i, None, EStr (n 3))] else [])) ids) workers in
  let kills = List.map (fun i -> Kill (n 3, [i])) ids in
  let ticks = [Tick (n 6)] @ (if full then [Tick (n 200)] else []) in
  let discs = List.map (fun w -> Disconnect (n w)) (List.filter (fun w -> w <= nconn) [1; 2; 3]) in
  let choice = if List.length s.s_waiters >= 2 && s.s_choices = [] then [Choice (n 1)] @ (if List.length s.s_waiters >= 3 then [Choice (n 2)] else []) else [] in
  let waits = if full then List.concat_map (fun i -> [Wait (n 3, i)]) ids @ [Stats] else [] in
  adds @ pulls @ [RunLoop] @ fins @ kills @ ticks @ discs @ choice @ waits

let enum full depth maxjobs maxstates =
  let seen = Hashtbl.create 100000 in
  let strip s = { s with s_handed = []; s_requeued = [] } in
  Hashtbl.replace seen (strip init) ();
  let frontier = ref [ (init, []) ] in
  let total = ref 0 in
  let d = ref 0 in
  let truncated = ref false in
  while !d < depth && !frontier <> [] do
    incr d;
    let next = ref [] in
    List.iter (fun (s, h) ->
      List.iter (fun o ->
        let (s', _) = step s o in
        let h' = o :: h in
        incr total;
        print_string (String.concat ";" (List.rev_map op_t h') ^ "\n");
        let k = strip s' in
        if not (Hashtbl.mem seen k) then begin
          if Hashtbl.length seen < maxstates then begin
            Hashtbl.replace seen k ();
            next := (s', h') :: !next
          end else truncated := true
        end) (alphabet ~full maxjobs s)) !frontier;
    frontier := List.rev !next;
    prerr_string (Printf.sprintf "depth %d: transitions so far %d, distinct states %d, frontier %d%s\n" !d !total (Hashtbl.length seen) (List.length !frontier) (if !truncated then " TRUNCATED" else ""))
  done

let () =
  if Array.length Sys.argv > 1 && Sys.argv.(1) = "enum" then
    enum (Sys.argv.(2) = "full") (int_of_string Sys.argv.(3)) (int_of_string Sys.argv.(4)) (int_of_string Sys.argv.(5))
  else begin
    let st = ref init in
    try while true do
      let line = input_line stdin in
      match toks line with
      | ["N"] -> st := init; print_string "{\"out\":[],\"snap\":null}\n"; flush stdout
      | ["R"] -> st := restart !st; print_string ("{\"out\":[[\"unit\"]],\"snap\":" ^ snap_s !st ^ "}\n"); flush stdout
      | t -> (match parse_op t with
          | Some o -> let (s', outs) = step !st o in st := s';
            print_string ("{\"out\":" ^ list_s out_s outs ^ ",\"snap\":" ^ snap_s s' ^ "}\n"); flush stdout
          | None -> print_string "{\"error\":\"parse\"}\n"; flush stdout)
    done with End_of_file -> ()
  end
