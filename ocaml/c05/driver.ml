(* line protocol around the extracted heap model (coq/C05/Heap.v).
   heap text:  <root> ; id cls par nk k.. nw w.. ; ...      (par 0 = None; ids >= 1)
   "S <heap>"            -> "R <wfb> <contractb> W w:sec:depth:ref:tbl ... T id:rows:cols ..."
   "A <heap> # op ; op"  -> "H <ok-count> <ERR|OK> ; id cls par nk k.. ; ..."   (ops: a p c | r p c | x p c n k.. | m n tgt pfx | c n | h d u = Refs.handover) *)
open C05_model
let rec pos_of_int i = if i = 1 then XH else if i land 1 = 1 then XI (pos_of_int (i lsr 1)) else XO (pos_of_int (i lsr 1))
let n_of_int i = if i = 0 then N0 else Npos (pos_of_int i)
let rec int_of_pos = function XH -> 1 | XO p -> 2 * int_of_pos p | XI p -> 2 * int_of_pos p + 1
let int_of_n = function N0 -> 0 | Npos p -> int_of_pos p
let rec int_of_nat = function O -> 0 | S n -> 1 + int_of_nat n
let toks s = List.filter (fun x -> x <> "") (String.split_on_char ' ' s)
let rec take k l = if k = 0 then ([], l) else match l with x :: r -> let (a, b) = take (k - 1) r in (x :: a, b) | [] -> failwith "short"
let parse_cell s =
  match List.map int_of_string (toks s) with
  | id :: c :: p :: nk :: rest ->
    let (ks, rest) = take nk rest in
    (match rest with
     | nw :: rest -> let (ws, _) = take nw rest in
       (n_of_int id, { cls = n_of_int c; parent = (if p = 0 then None else Some (n_of_int p));
                       children = List.map n_of_int ks; text = List.map n_of_int ws })
     | [] -> failwith "cell")
  | _ -> failwith "cell"
let parse_heap s =
  match String.split_on_char ';' s with
  | r :: cells -> (n_of_int (int_of_string (String.trim r)), List.map parse_cell (List.filter (fun x -> String.trim x <> "") cells))
  | [] -> failwith "heap"
let b2s b = if b then "1" else "0"
let dump h =
  let seen = Hashtbl.create 64 in
  let cells = List.filter (fun (i, _) -> let k = int_of_n i in if Hashtbl.mem seen k then false else (Hashtbl.add seen k (); true)) h in
  let cells = List.sort (fun (a, _) (b, _) -> compare (int_of_n a) (int_of_n b)) cells in
  String.concat " ; " (List.map (fun (i, nd) ->
      Printf.sprintf "%d %d %d %d%s" (int_of_n i) (int_of_n nd.cls) (match nd.parent with None -> 0 | Some p -> int_of_n p)
        (List.length nd.children) (String.concat "" (List.map (fun k -> " " ^ string_of_int (int_of_n k)) nd.children))) cells)
let apply h o =
  match toks o with
  | ["a"; p; c] -> Ok (append_child h (n_of_int (int_of_string p)) (n_of_int (int_of_string c)))
  | ["r"; p; c] -> remove_child h (n_of_int (int_of_string p)) (n_of_int (int_of_string c))
  | "x" :: p :: c :: _ :: ks -> replace_child h (n_of_int (int_of_string p)) (n_of_int (int_of_string c)) (List.map (fun k -> n_of_int (int_of_string k)) ks)
  | ["m"; n; t; pf] -> move_to h (n_of_int (int_of_string n)) (n_of_int (int_of_string t)) (pf = "1")
  | ["h"; d; u] -> Ok (handover h (n_of_int (int_of_string d)) (n_of_int (int_of_string u)))
  | ["c"; n] -> (match copy h (n_of_int (int_of_string n)) with Some (h', _) -> Ok h' | None -> Err)
  | _ -> failwith "op"
let () =
  try while true do
    let line = input_line stdin in
    (try
      if String.length line > 2 && line.[0] = 'S' then begin
        let (r, h) = parse_heap (String.sub line 2 (String.length line - 2)) in
        let w = wfb h r in
        let c = if w then contractb h r else false in
        let cw = if w then cwords h r else [] in
        let ws = String.concat " " (List.map (fun (x, cx) -> Printf.sprintf "%d:%d:%d:%d:%d" (int_of_n x) (int_of_n cx.x_sec) (int_of_n cx.x_depth) (int_of_n cx.x_ref) (int_of_n cx.x_tbl)) cw) in
        let tabs = List.filter (fun (i, nd) -> int_of_n nd.cls = 2) h in
        let ts = String.concat " " (List.map (fun (i, _) -> let (a, b) = table_dims h i in Printf.sprintf "%d:%d:%d" (int_of_n i) (int_of_nat a) (int_of_nat b)) tabs) in
        print_string ("R " ^ b2s w ^ " " ^ b2s c ^ " W " ^ ws ^ " T " ^ ts ^ "\n")
      end else if String.length line > 2 && line.[0] = 'A' then begin
        match String.split_on_char '#' (String.sub line 2 (String.length line - 2)) with
        | [hs; ops] ->
          let (_, h) = parse_heap hs in
          let ops = List.filter (fun x -> String.trim x <> "") (String.split_on_char ';' ops) in
          let rec go h k = function
            | [] -> (k, true, h)
            | o :: rest -> (match apply h o with Ok h' -> go h' (k + 1) rest | Err -> (k, false, h)) in
          let (k, ok, h') = go h 0 ops in
          print_string (Printf.sprintf "H %d %s ; %s\n" k (if ok then "OK" else "ERR") (dump h'))
        | _ -> print_string "E bad A line\n"
      end else print_string "E unknown\n"
    with Failure m -> print_string ("E " ^ m ^ "\n") | Not_found -> print_string "E notfound\n" | Stack_overflow -> print_string "E stackoverflow\n");
    flush stdout
  done with End_of_file -> ()
