(* line protocol around the extracted C13 model; blank separated tokens.
   value: N | T | F | I <int> | S <str> | L <k> v*k | D <k> (<str> v)*k | O <str cls> <k> (<str> v)*k | E
   <str> = <k> c1 .. ck.   State = one current metabook value.
   NEW <str lowname> kw(<k> (<str> v)*k)      -> ok            (state := new object)
   APPEND <str title> (- | <str dt>) kw        -> ok            (Collection.append_article)
   ADDITEM <str lowname> kw                    -> ok            (state.items.append(new object))
   SET <str field> v                           -> ok            (setattr on the state)
   STATE                                       -> value          TOJSON -> value (to_json state)
   LOAD v                                      -> ok | ERR       (state := of_json v)
   RELOAD                                      -> ok | ERR       (state := of_json (to_json state))
   CANON v                                     -> value | E      (to_json (of_json v))
   WF                                          -> 1 | 0          (wfb state: in the theorems' domain)
   WALK                                        -> L of walked items
   EDIT <k> i*k (SET <str> v | APPEND <str low> kw | INSERT i <str low> kw | POP i | REVERSE | LAPPEND <str> v |
                 INNER <str> i <str> v)       -> ok            (in-place edit at the object reached through items[i % len]..)
   LOWER <str> -> <str>      STRIP <str> -> <str>     FLUSH -> flushed *)
open C13_model
let rec pos_of_int i = if i = 1 then XH else if i land 1 = 1 then XI (pos_of_int (i lsr 1)) else XO (pos_of_int (i lsr 1))
let n_of_int i = if i = 0 then N0 else Npos (pos_of_int i)
let rec int_of_pos = function XH -> 1 | XO p -> 2 * int_of_pos p | XI p -> 2 * int_of_pos p + 1
let int_of_n = function N0 -> 0 | Npos p -> int_of_pos p
let z_of_int i = if i = 0 then Z0 else if i > 0 then Zpos (pos_of_int i) else Zneg (pos_of_int (-i))
let int_of_z = function Z0 -> 0 | Zpos p -> int_of_pos p | Zneg p -> - (int_of_pos p)

let toks = ref []
let next () = match !toks with t :: r -> toks := r; t | [] -> failwith "eol"
let rd_int () = int_of_string (next ())
let rec rd_n k f = if k = 0 then [] else let x = f () in x :: rd_n (k - 1) f
let rd_str () = let k = rd_int () in rd_n k (fun () -> n_of_int (rd_int ()))
let rec rd_val () = match next () with
  | "N" -> VNull | "T" -> VBool true | "F" -> VBool false
  | "I" -> VInt (z_of_int (rd_int ()))
  | "S" -> VStr (rd_str ())
  | "L" -> let k = rd_int () in VList (rd_n k rd_val)
  | "D" -> VDict (rd_kvs ())
  | "O" -> let c = rd_str () in VObj (c, rd_kvs ())
  | "E" -> VErr
  | t -> failwith ("bad value token " ^ t)
and rd_kvs () = let k = rd_int () in rd_n k (fun () -> let key = rd_str () in let v = rd_val () in (key, v))

let b = Buffer.create 256
let w s = Buffer.add_string b s; Buffer.add_char b ' '
let wr_str s = w (string_of_int (List.length s)); List.iter (fun c -> w (string_of_int (int_of_n c))) s
let rec wr_val = function
  | VNull -> w "N" | VBool true -> w "T" | VBool false -> w "F"
  | VInt z -> w "I"; w (string_of_int (int_of_z z))
  | VStr s -> w "S"; wr_str s
  | VList l -> w "L"; w (string_of_int (List.length l)); List.iter wr_val l
  | VDict k -> w "D"; wr_kvs k
  | VObj (c, k) -> w "O"; wr_str c; wr_kvs k
  | VErr -> w "E"
and wr_kvs k = w (string_of_int (List.length k)); List.iter (fun (a, v) -> wr_str a; wr_val v) k

let rec nat_of_int i = if i <= 0 then O else S (nat_of_int (i - 1))
let rd_edit () = match next () with
  | "SET" -> let k = rd_str () in let v = rd_val () in ESet (k, v)
  | "APPEND" -> let n = rd_str () in let kw = rd_kvs () in EAppend (new_obj n kw)
  | "INSERT" -> let i = rd_int () in let n = rd_str () in let kw = rd_kvs () in EInsert (nat_of_int i, new_obj n kw)
  | "POP" -> EPop (nat_of_int (rd_int ()))
  | "REVERSE" -> EReverse
  | "LAPPEND" -> let k = rd_str () in let v = rd_val () in EListAppend (k, v)
  | "INNER" -> let k = rd_str () in let i = rd_int () in let k2 = rd_str () in let v = rd_val () in EInner (k, nat_of_int i, k2, v)
  | t -> failwith ("bad edit " ^ t)

let st = ref VNull
let () =
  try while true do
    let line = input_line stdin in
    toks := List.filter (fun x -> x <> "") (String.split_on_char ' ' line);
    Buffer.clear b;
    (try
      (match next () with
       | "NEW" -> let n = rd_str () in let kw = rd_kvs () in st := new_obj n kw; w "ok"
       | "APPEND" ->
         let t = rd_str () in
         let dt = (match !toks with "-" :: r -> toks := r; None | _ -> Some (rd_str ())) in
         let kw = rd_kvs () in st := append_article t dt kw !st; w "ok"
       | "ADDITEM" -> let n = rd_str () in let kw = rd_kvs () in st := append_item (new_obj n kw) !st; w "ok"
       | "SET" -> let f = rd_str () in let v = rd_val () in st := set_field f v !st; w "ok"
       | "EDIT" -> let k = rd_int () in let path = rd_n k (fun () -> nat_of_int (rd_int ())) in
         let e = rd_edit () in st := edit_at path e !st; w "ok"
       | "STATE" -> wr_val !st
       | "TOJSON" -> wr_val (to_json !st)
       | "LOAD" -> let v = rd_val () in (match loads v with Some m -> st := m; w "ok" | None -> w "ERR")
       | "RELOAD" -> (match loads (to_json !st) with Some m -> st := m; w "ok" | None -> st := VErr; w "ERR")
       | "CANON" -> let v = rd_val () in (match loads v with Some m -> wr_val (to_json m) | None -> w "E")
       | "WF" -> w (if wfb !st && msorted !st then "1" else "0")
       | "WALK" -> wr_val (VList (walk_items !st))
       | "LOWER" -> wr_str (lower (rd_str ()))
       | "STRIP" -> wr_str (strip (rd_str ()))
       | "SPACES" -> for c = 0 to 0x10FFFF do if py_isspace (n_of_int c) then w (string_of_int c) done
       | "FLUSH" -> w "flushed"
       | t -> failwith ("bad command " ^ t))
    with Failure m -> Buffer.clear b; w ("ERR " ^ m));
    print_string (Buffer.contents b); print_char '\n';
    if line = "FLUSH" then flush stdout
  done with End_of_file -> ()
