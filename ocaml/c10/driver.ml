(* line protocol.  input: one text per line as space separated code points (possibly empty).
   output: tokens "type,start,len" joined by ';'   |  STUCK  |  FUEL *)
open C10_model
let rec pos_of_int i = if i = 1 then XH else if i land 1 = 1 then XI (pos_of_int (i lsr 1)) else XO (pos_of_int (i lsr 1))
let n_of_int i = if i = 0 then N0 else Npos (pos_of_int i)
let rec int_of_pos = function XH -> 1 | XO p -> 2 * int_of_pos p | XI p -> 2 * int_of_pos p + 1
let int_of_n = function N0 -> 0 | Npos p -> int_of_pos p
let rec int_of_nat = function O -> 0 | S n -> 1 + int_of_nat n
let str_of_field f = List.map (fun x -> n_of_int (int_of_string x)) (List.filter (fun x -> x <> "") (String.split_on_char ' ' f))
let () =
  let buf = Buffer.create 65536 in
  (try while true do
    let line = input_line stdin in
    (match scan (str_of_field line) with
     | F_done l ->
       let first = ref true in
       List.iter (fun t ->
         if not !first then Buffer.add_char buf ';';
         first := false;
         Buffer.add_string buf (string_of_int (int_of_n t.ttype)); Buffer.add_char buf ',';
         Buffer.add_string buf (string_of_int (int_of_nat t.tstart)); Buffer.add_char buf ',';
         Buffer.add_string buf (string_of_int (int_of_nat t.tlen))) l
     | F_stuck -> Buffer.add_string buf "STUCK"
     | F_fuel -> Buffer.add_string buf "FUEL");
    Buffer.add_char buf '\n';
    if Buffer.length buf > 60000 then (print_string (Buffer.contents buf); Buffer.clear buf)
  done with End_of_file -> ());
  print_string (Buffer.contents buf)
