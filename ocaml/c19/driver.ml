(* line protocol around the extracted C19 model; tokens are separated by blanks.
   value  : N | T | F | I <int> | S <str> | L <k> v*k | D <k> (<str> v)*k        <str> = <k> c1 .. ck
   optval : - | value          snapopt: 0 | 1 optval(info) optval(done) optval(error) optval(result)
   tbl    : <k> (<str> <str>)*k      (the NFKD oracle, tabulated by the harness)
   STATUS <str w> snapopt(render) snapopt(makezip) tbl            -> response
   CD <str filename> <str ext> tbl                                 -> E <exc> | O <str>
   RESET | OP J <now> <str id> event | OP T <now> | OP D <now>     -> ok
   SPACES                                                          -> all code points with py_isspace
   QINFO <str id>                                                  -> snapopt [phase]
   STSTATUS <str c> <str w> tbl                                    -> response
   RSTATUS <str c> <str w> snapopt(1st read: render job) snapopt(2nd read: makezip job) tbl
                                                                   -> response ASKED <k> <str id>*k   (status_req, ModelReq.v)
   event  : P <timeout> <ttl|-> | U | I <k> (<str> v)*k | F v v | K | M | W *)
open C19_model
let rec pos_of_int i = if i = 1 then XH else if i land 1 = 1 then XI (pos_of_int (i lsr 1)) else XO (pos_of_int (i lsr 1))
let n_of_int i = if i = 0 then N0 else Npos (pos_of_int i)
let rec int_of_pos = function XH -> 1 | XO p -> 2 * int_of_pos p | XI p -> 2 * int_of_pos p + 1
let int_of_n = function N0 -> 0 | Npos p -> int_of_pos p
let z_of_int i = if i = 0 then Z0 else if i > 0 then Zpos (pos_of_int i) else Zneg (pos_of_int (-i))
let int_of_z = function Z0 -> 0 | Zpos p -> int_of_pos p | Zneg p -> - (int_of_pos p)

let toks = ref []
let next () = match !toks with t :: r -> toks := r; t | [] -> failwith "eol"
let rd_int () = int_of_string (next ())
let rec rd_n k f = if k = 0 then [] else let x = f () in x :: rd_n (k - 1) f
let rd_str () = let k = rd_int () in rd_n k (fun () -> n_of_int (rd_int ()))
let rec rd_val () = match next () with
  | "N" -> VNone | "T" -> VBool true | "F" -> VBool false
  | "I" -> VInt (z_of_int (rd_int ()))
  | "S" -> VStr (rd_str ())
  | "L" -> let k = rd_int () in VList (rd_n k rd_val)
  | "D" -> VDict (rd_kvs ())
  | t -> failwith ("bad value token " ^ t)
and rd_kvs () = let k = rd_int () in rd_n k (fun () -> let key = rd_str () in let v = rd_val () in (key, v))
let rd_optval () = match !toks with "-" :: r -> toks := r; None | _ -> Some (rd_val ())
let rd_snapopt () = match next () with
  | "0" -> None
  | _ -> let i = rd_optval () in let d = rd_optval () in let e = rd_optval () in let r = rd_optval () in
         Some { s_info = i; s_done = d; s_error = e; s_result = r }
let rd_tbl () = let k = rd_int () in rd_n k (fun () -> let a = rd_str () in let b = rd_str () in (a, b))
let nfkd_of tbl = fun s -> (try List.assoc s tbl with Not_found -> [n_of_int 16777215])

let b = Buffer.create 256
let w s = Buffer.add_string b s; Buffer.add_char b ' '
let wr_str s = w (string_of_int (List.length s)); List.iter (fun c -> w (string_of_int (int_of_n c))) s
let rec wr_val = function
  | VNone -> w "N" | VBool true -> w "T" | VBool false -> w "F"
  | VInt z -> w "I"; w (string_of_int (int_of_z z))
  | VStr s -> w "S"; wr_str s
  | VList l -> w "L"; w (string_of_int (List.length l)); List.iter wr_val l
  | VDict k -> w "D"; w (string_of_int (List.length k)); List.iter (fun (a, v) -> wr_str a; wr_val v) k
let wr_optval = function None -> w "-" | Some v -> wr_val v
let wr_optstr = function None -> w "-" | Some s -> wr_str s
let exc_name = function KeyError -> "KeyError" | TypeError -> "TypeError" | AttributeError -> "AttributeError"
  | UnicodeEncodeError -> "UnicodeEncodeError"
let wr_resp = function
  | Failed e -> w "FAILED"; wr_val e
  | Finished m -> w "FINISHED"; wr_optval m.f_url; wr_optval m.f_size; wr_optval m.f_sugg; wr_optstr m.f_ctype; wr_optstr m.f_cdisp
  | Progress s -> w "PROGRESS"; wr_val s
  | Crash e -> w "CRASH"; w (exc_name e)
let phase_name = function Queued -> "Queued" | Running -> "Running" | FinishedOK -> "FinishedOK"
  | FinishedErr -> "FinishedErr" | Killed -> "Killed" | TimedOut -> "TimedOut"

let st = ref empty_store
let rd_event () = match next () with
  | "P" -> let t = rd_int () in let ttl = (match next () with "-" -> None | x -> Some (z_of_int (int_of_string x))) in Push (z_of_int t, ttl)
  | "U" -> Pull
  | "I" -> SetInfo (rd_kvs ())
  | "F" -> let r = rd_val () in let e = rd_val () in Finish (r, e)
  | "K" -> Kill | "M" -> DropMark | "W" -> Wait
  | t -> failwith ("bad event " ^ t)

let () =
  try while true do
    let line = input_line stdin in
    toks := List.filter (fun x -> x <> "") (String.split_on_char ' ' line);
    Buffer.clear b;
    (try
      (match next () with
       | "STATUS" ->
         let wn = rd_str () in let r = rd_snapopt () in let m = rd_snapopt () in let tbl = rd_tbl () in
         wr_resp (status (nfkd_of tbl) r m wn)
       | "RSTATUS" ->
         let c = rd_str () in let wn = rd_str () in let r = rd_snapopt () in let m = rd_snapopt () in let tbl = rd_tbl () in
         (match exec_reads (nfkd_of tbl) c wn r m with
          | None -> failwith "request wants more than two reads"
          | Some (resp, tr) ->
            wr_resp resp; w "ASKED"; w (string_of_int (List.length tr)); List.iter (fun (id, _) -> wr_str id) tr)
       | "CD" ->
         let f = rd_str () in let e = rd_str () in let tbl = rd_tbl () in
         (match content_disposition (nfkd_of tbl) f e with
          | Inl x -> w "E"; w (exc_name x)
          | Inr s -> w "O"; wr_str s)
       | "SPACES" -> for c = 0 to 0x10FFFF do if py_isspace (n_of_int c) then w (string_of_int c) done
       | "FLUSH" -> w "flushed"
       | "RESET" -> st := empty_store; w "ok"
       | "OP" ->
         (match next () with
          | "J" -> let now = rd_int () in let id = rd_str () in let e = rd_event () in
                   st := apply_op !st (OnJob (z_of_int now, id, e)); w "ok"
          | "T" -> let now = rd_int () in st := apply_op !st (Tick (z_of_int now)); w "ok"
          | "D" -> let now = rd_int () in st := apply_op !st (DropDead (z_of_int now)); w "ok"
          | t -> failwith ("bad op " ^ t))
       | "QINFO" ->
         let id = rd_str () in
         (match !st id with
          | None -> w "0"
          | Some j -> let s = snap_of j in
            w "1"; wr_optval s.s_info; wr_optval s.s_done; wr_optval s.s_error; wr_optval s.s_result; w (phase_name j.j_phase))
       | "STSTATUS" ->
         let c = rd_str () in let wn = rd_str () in let tbl = rd_tbl () in
         wr_resp (do_render_status (nfkd_of tbl) (qinfo_of !st) c wn)
       | t -> failwith ("bad command " ^ t))
    with Failure m -> Buffer.clear b; w ("ERR " ^ m));
    print_string (Buffer.contents b); print_char '\n';
    if line = "FLUSH" then flush stdout
  done with End_of_file -> ()
