(* line protocol around the extracted FsTrace model (C20).
   A case is a block of lines:
     CASE <final> <query path>*            paths / fds are decimal numbers
     F <path> <hex>                        initial file (hex bytes, "e" = empty)
     O <path> <r|w|rw> <creat> <excl> <trunc> <append> <fd> <ok>       flags and ok are 0/1
     W <fd> <hex> <ok> | P <fd> <off> <hex> <ok> | L <fd> <off> <ok> | T <fd> <len> <ok>
     C <fd> <ok> | R <a> <b> <ok> | U <p> <ok> | M <p> <ok> | S <fd> <ok> | X
     END
   Answer: one line  "<0|1> <view>*"  : recogniser verdict, then for each query path what a reader sees
   after the whole trace ("-" absent, "e" empty, else hex). *)
open C20_model
let rec pos_of_int i = if i = 1 then XH else if i land 1 = 1 then XI (pos_of_int (i lsr 1)) else XO (pos_of_int (i lsr 1))
let n_of_int i = if i = 0 then N0 else Npos (pos_of_int i)
let rec int_of_pos = function XH -> 1 | XO p -> 2 * int_of_pos p | XI p -> 2 * int_of_pos p + 1
let int_of_n = function N0 -> 0 | Npos p -> int_of_pos p
let num s = n_of_int (int_of_string s)
let flag s = (s = "1")
let hexval c = match c with '0'..'9' -> Char.code c - 48 | 'a'..'f' -> Char.code c - 87 | _ -> failwith "hex"
let bytes_of_hex s =
  if s = "e" then [] else begin
    let n = String.length s / 2 in
    let rec go i acc = if i < 0 then acc else go (i - 1) (n_of_int (16 * hexval s.[2*i] + hexval s.[2*i+1]) :: acc) in
    go (n - 1) [] end
let hex_of_bytes bs =
  if bs = [] then "e" else begin
    let b = Buffer.create 1024 in
    List.iter (fun x -> Buffer.add_string b (Printf.sprintf "%02x" (int_of_n x))) bs;
    Buffer.contents b end
let mode = function "r" -> RdOnly | "w" -> WrOnly | "rw" -> RdWr | _ -> failwith "mode"
let parse_op w = match w with
  | ["O"; p; m; cr; ex; tr; ap; fd; ok] ->
    Openat (num p, { o_mode = mode m; o_creat = flag cr; o_excl = flag ex; o_trunc = flag tr; o_append = flag ap }, num fd, flag ok)
  | ["W"; fd; h; ok] -> Write (num fd, bytes_of_hex h, flag ok)
  | ["P"; fd; off; h; ok] -> Pwrite (num fd, num off, bytes_of_hex h, flag ok)
  | ["L"; fd; off; ok] -> Lseek (num fd, num off, flag ok)
  | ["T"; fd; len; ok] -> Ftruncate (num fd, num len, flag ok)
  | ["C"; fd; ok] -> Close (num fd, flag ok)
  | ["R"; a; b; ok] -> Rename (num a, num b, flag ok)
  | ["U"; p; ok] -> Unlink (num p, flag ok)
  | ["M"; p; ok] -> Mkdir (num p, flag ok)
  | ["S"; fd; ok] -> Fsync (num fd, flag ok)
  | ["X"] -> Unsupported
  | _ -> failwith ("bad op line: " ^ String.concat " " w)
let () =
  let final = ref N0 and query = ref [] and files = ref [] and ops = ref [] in
  try while true do
    let line = input_line stdin in
    let w = List.filter (fun x -> x <> "") (String.split_on_char ' ' line) in
    match w with
    | "CASE" :: f :: q -> final := num f; query := List.map num q; files := []; ops := []
    | ["F"; p; h] -> files := (num p, bytes_of_hex h) :: !files
    | ["END"] ->
      (* mk_fs: later entries of the list are applied first, so keep input order = reversed accumulator *)
      let (ok, views) = analyse !final !files (List.rev !ops) !query in
      let vs = List.map (function None -> "-" | Some b -> hex_of_bytes b) views in
      print_string (String.concat " " ((if ok then "1" else "0") :: vs) ^ "\n"); flush stdout
    | [] -> ()
    | _ -> ops := parse_op w :: !ops
  done with End_of_file -> ()
