(* line protocol (blank separated tokens):
     C                       clear universe
     D n str*                default aliases
     U <str> <body>          define template
     K <body>                print "CMP <node>"  (compile_body_r: the expected parse, '=' of argument texts cut out as eqmark)
     P fuel limit <body>     print "RES <node> | EVAL.. | IMPL.."
   str  = k c1..ck ; body = n ast*n
   ast  = t str | p str 0 | p str 1 body | c str n arg*  (arg = 0 body | 1 str body)
        | i body body 0 | i body body 1 body | q body body body 0|1 [body]
        | w body n case* d   (case = m body*m body body ; d = 0 | 1 body (named) | 2 body (bare)) *)
open C04_model
let rec pos_of_int i = if i = 1 then XH else if i land 1 = 1 then XI (pos_of_int (i lsr 1)) else XO (pos_of_int (i lsr 1))
let n_of_int i = if i = 0 then N0 else Npos (pos_of_int i)
let rec int_of_pos = function XH -> 1 | XO p -> 2 * int_of_pos p | XI p -> 2 * int_of_pos p + 1
let int_of_n = function N0 -> 0 | Npos p -> int_of_pos p
let rec nat_of_int i = if i <= 0 then O else S (nat_of_int (i - 1))

let toks = ref [||]
let pos = ref 0
let next () = let t = !toks.(!pos) in incr pos; t
let next_int () = int_of_string (next ())
let read_str () = let k = next_int () in List.init k (fun _ -> n_of_int (next_int ()))
let rec read_list f n = if n = 0 then [] else let x = f () in x :: read_list f (n - 1)
let rec read_ast () =
  match next () with
  | "t" -> Text (read_str ())
  | "p" -> let nm = read_str () in (match next_int () with 0 -> Param (nm, None) | _ -> Param (nm, Some (read_body ())))
  | "c" -> let nm = read_str () in let n = next_int () in
           Call (nm, read_list (fun () -> match next_int () with
                                          | 0 -> (None, read_body ())
                                          | _ -> let k = read_str () in (Some k, read_body ())) n)
  | "i" -> let c = read_body () in let t = read_body () in
           (match next_int () with 0 -> If (c, t, None) | _ -> If (c, t, Some (read_body ())))
  | "q" -> let a = read_body () in let b = read_body () in let t = read_body () in
           (match next_int () with 0 -> IfEq (a, b, t, None) | _ -> IfEq (a, b, t, Some (read_body ())))
  | "w" -> let sc = read_body () in let n = next_int () in
           let cases = read_list (fun () -> let m = next_int () in let ks = read_list read_body m in
                                            let k = read_body () in let v = read_body () in ((ks, k), v)) n in
           (match next_int () with
            | 0 -> Switch (sc, cases, None)
            | 1 -> Switch (sc, cases, Some (true, read_body ()))
            | _ -> Switch (sc, cases, Some (false, read_body ())))
  | t -> failwith ("bad ast tag " ^ t)
and read_body () = let n = next_int () in read_list read_ast n

let out_str s = String.concat " " (string_of_int (List.length s) :: List.map (fun x -> string_of_int (int_of_n x)) s)
let rec out_node = function
  | NStr s -> "S " ^ out_str s
  | NEq -> "E"
  | NSeq l -> "Q " ^ out_nodes l
  | NVar l -> "V " ^ out_nodes l
  | NTpl (nm, args) -> "T " ^ out_node nm ^ " " ^ out_nodes args
  | NIf l -> "I " ^ out_nodes l
  | NIfEq l -> "J " ^ out_nodes l
  | NSwitch (v, args) -> "W " ^ out_node v ^ " " ^ out_nodes args
and out_nodes l = String.concat " " (string_of_int (List.length l) :: List.map out_node l)

let universe : (n list * ast list) list ref = ref []
let defaults = ref [ List.map (fun c -> n_of_int (Char.code c)) (List.of_seq (String.to_seq "#default")) ]

let () =
  try while true do
    let line = input_line stdin in
    toks := Array.of_list (List.filter (fun x -> x <> "") (String.split_on_char ' ' line));
    pos := 0;
    (try
      match next () with
      | "C" -> universe := []
      | "D" -> let n = next_int () in defaults := read_list read_str n
      | "U" -> let nm = read_str () in let b = read_body () in universe := !universe @ [(nm, b)]
      | "K" -> let b = read_body () in print_string ("CMP " ^ out_node (compile_body_r b) ^ "\n")
      | "P" ->
        let fuel = next_int () in
        let limit = next_int () in
        let b = read_body () in
        let ev = match evals (nat_of_int fuel) !universe [] b with Some s -> "EVAL OK " ^ out_str s | None -> "EVAL NONE" in
        let im = match impl_expand_r !universe !defaults (nat_of_int limit) b with
          | Ok s -> "IMPL OK " ^ out_str s | Err XRec -> "IMPL ERR XRec" | Err XMem -> "IMPL ERR XMem" in
        print_string ("RES " ^ out_node (compile_body_r b) ^ " | " ^ ev ^ " | " ^ im ^ "\n")
      | t -> print_string ("BAD " ^ t ^ "\n")
    with e -> print_string ("EXN " ^ Printexc.to_string e ^ "\n"))
  done with End_of_file -> ()
