(* line protocol (one request per line, s-expressions of integers):
   D <blocks>   -> JSON of `denote`              blocks: (10 k inl..) (11 (inl..)..) (12 ((p..) (inl..) [(inl..)])..) (13 ((hdr inl..)..)..) (14 (inl..)..) (15 (inl..) ((hdr inl..)..)..)
                                                 inl: (0 w) (1 inl..) (2 inl..) (3 t inl..) (4 u inl..) (5 inl..)
   S <items>    -> "<parse_sections> # <nest>"   items: (1 k c) heading, (0 x) block; output as s-expressions
   L <lines>    -> JSON of den_list              lines: ((p..) w) | ((p..) w d)   (d = word after the colon)
   A <lines>    -> JSON of analyze_model (the loop model of ParseLines.analyze, C02/ModelLines.v) | FUEL | ATTRERROR *)
open C02_model
type sx = I of int | L of sx list
let rec pos_of_int i = if i = 1 then XH else if i land 1 = 1 then XI (pos_of_int (i lsr 1)) else XO (pos_of_int (i lsr 1))
let n_of_int i = if i = 0 then N0 else Npos (pos_of_int i)
let rec int_of_pos = function XH -> 1 | XO p -> 2 * int_of_pos p | XI p -> 2 * int_of_pos p + 1
let int_of_n = function N0 -> 0 | Npos p -> int_of_pos p
let rec nat_of_int i = if i <= 0 then O else S (nat_of_int (i - 1))
let rec int_of_nat = function O -> 0 | S n -> 1 + int_of_nat n
let parse (s : string) : sx list =
  let n = String.length s in
  let pos = ref 0 in
  let rec items () =
    let acc = ref [] in
    let fin = ref false in
    while not !fin do
      while !pos < n && s.[!pos] = ' ' do incr pos done;
      if !pos >= n then fin := true
      else if s.[!pos] = ')' then (incr pos; fin := true)
      else if s.[!pos] = '(' then (incr pos; let l = items () in acc := L l :: !acc)
      else begin
        let st = !pos in
        while !pos < n && s.[!pos] <> ' ' && s.[!pos] <> ')' && s.[!pos] <> '(' do incr pos done;
        acc := I (int_of_string (String.sub s st (!pos - st))) :: !acc
      end
    done;
    List.rev !acc in
  items ()
let rec inl_of = function
  | L (I 0 :: [I w]) -> W (n_of_int w)
  | L (I 1 :: r) -> Bo (List.map inl_of r)
  | L (I 2 :: r) -> It (List.map inl_of r)
  | L (I 3 :: I t :: r) -> Lk (n_of_int t, List.map inl_of r)
  | L (I 4 :: I u :: r) -> Ex (n_of_int u, List.map inl_of r)
  | L (I 5 :: r) -> Rf (List.map inl_of r)
  | _ -> failwith "inl"
let inls = function L r -> List.map inl_of r | _ -> failwith "inls"
let block_of = function
  | L (I 10 :: I k :: r) -> BH (nat_of_int k, List.map inl_of r)
  | L (I 11 :: r) -> BP (List.map inls r)
  | L (I 12 :: r) -> BList (List.map (function
      | L [L p; L t] -> ((List.map (function I c -> n_of_int c | _ -> failwith "p") p, List.map inl_of t), None)
      | L [L p; L t; L d] -> ((List.map (function I c -> n_of_int c | _ -> failwith "p") p, List.map inl_of t), Some (List.map inl_of d))
      | _ -> failwith "line") r)
  | L (I 13 :: r) -> BTable (List.map (function L cells -> List.map (function L (I h :: r) -> (h = 1, List.map inl_of r) | _ -> failwith "cell") cells | _ -> failwith "row") r)
  | L (I 14 :: r) -> BPre (List.map inls r)
  | L (I 15 :: L cap :: r) -> BTableC (List.map inl_of cap, List.map (function L cells -> List.map (function L (I h :: r) -> (h = 1, List.map inl_of r) | _ -> failwith "cell") cells | _ -> failwith "row") r)
  | _ -> failwith "block"
let label_json = function
  | LSec k -> Printf.sprintf "[\"sec\", %d]" (int_of_nat k) | LHeading -> "[\"heading\"]" | LP -> "[\"p\"]" | LUl -> "[\"ul\"]"
  | LOl -> "[\"ol\"]" | LLi -> "[\"li\"]" | LDt -> "[\"dt\"]" | LDd -> "[\"dd\"]" | LTable -> "[\"table\"]" | LRow -> "[\"row\"]"
  | LCell h -> Printf.sprintf "[\"cell\", %s]" (if h then "true" else "false") | LPre -> "[\"pre\"]" | LRef -> "[\"ref\"]"
  | LLink t -> Printf.sprintf "[\"link\", %d]" (int_of_n t) | LExt u -> Printf.sprintf "[\"ext\", %d]" (int_of_n u) | LCaption -> "[\"caption\"]"
let rec tree_json = function
  | Leaf (w, b, i) -> Printf.sprintf "[\"L\", %d, %s, %s]" (int_of_n w) (if b then "true" else "false") (if i then "true" else "false")
  | Node (l, ch) -> Printf.sprintf "[\"N\", %s, %s]" (label_json l) (trees_json ch)
and trees_json l = "[" ^ String.concat ", " (List.map tree_json l) ^ "]"
let rec stree_sx = function
  | SB x -> Printf.sprintf "(0 %d)" x
  | SS (k, c, ch) -> Printf.sprintf "(1 %d %d%s)" (int_of_nat k) c (String.concat "" (List.map (fun t -> " " ^ stree_sx t) ch))
let () =
  try while true do
    let line = input_line stdin in
    let kind = line.[0] in
    let sx = parse (String.sub line 1 (String.length line - 1)) in
    (try match kind with
     | 'D' -> print_string (trees_json (denote (List.map block_of sx)) ^ "\n")
     | 'S' ->
       let items = List.map (function L [I 1; I k; I c] -> IH (nat_of_int k, c) | L [I 0; I x] -> IB x | _ -> failwith "item") sx in
       let show l = String.concat " " (List.map stree_sx l) in
       print_string (show (parse_sections items) ^ " # " ^ show (nest items) ^ "\n")
     | 'L' ->
       let pre p = List.map (function I c -> n_of_int c | _ -> failwith "p") p in
       let lines = List.map (function
         | L [L p; I w] -> ((pre p, [Leaf (n_of_int w, false, false)]), None)
         | L [L p; I w; I d] -> ((pre p, [Leaf (n_of_int w, false, false)]), Some [Leaf (n_of_int d, false, false)])
         | _ -> failwith "line") sx in
       print_string (trees_json (den_list (line_fuel lines) lines) ^ "\n")
     | 'A' ->
       let pre p = List.map (function I c -> n_of_int c | _ -> failwith "p") p in
       let lines = List.map (function
         | L [L p; I w] -> ((pre p, [Leaf (n_of_int w, false, false)]), None)
         | L [L p; I w; I d] -> ((pre p, [Leaf (n_of_int w, false, false)]), Some [Leaf (n_of_int d, false, false)])
         | _ -> failwith "line") sx in
       (match analyze_model (analyze_fuel lines) lines with
        | LOk ts -> print_string (trees_json ts ^ "\n")
        | LFuel -> print_string "FUEL\n"
        | LAttrError -> print_string "ATTRERROR\n")
     | _ -> print_string "ERR\n"
     with Failure m -> print_string ("ERR " ^ m ^ "\n"))
  done with End_of_file -> ()
