(* line protocol: fields separated by '|', each field = space separated code points.
   input : cwd|dst|name1|name2...      output: ops joined by ';' then '#' then outcome
   input : MK|path|dir1|dir2...        output: directories created by os.makedirs(path) on the file
                                       system holding dir1.. (makedirs_fs), joined by ';', '#', outcome *)
open C15_model
let rec pos_of_int i = if i = 1 then XH else if i land 1 = 1 then XI (pos_of_int (i lsr 1)) else XO (pos_of_int (i lsr 1))
let n_of_int i = if i = 0 then N0 else Npos (pos_of_int i)
let rec int_of_pos = function XH -> 1 | XO p -> 2 * int_of_pos p | XI p -> 2 * int_of_pos p + 1
let int_of_n = function N0 -> 0 | Npos p -> int_of_pos p
let str_of_field f = List.map (fun x -> n_of_int (int_of_string x)) (List.filter (fun x -> x <> "") (String.split_on_char ' ' f))
let field_of_str s = String.concat " " (List.map (fun x -> string_of_int (int_of_n x)) s)
let () =
  try while true do
    let line = input_line stdin in
    match String.split_on_char '|' line with
    | "MK" :: path :: dirs ->
      let (cr, o) = makedirs_fs (List.map str_of_field dirs) (str_of_field path) in
      let o_s = match o with MDone -> "DONE" | MFileExists -> "EXISTS" | MOSError -> "OSERROR" | MOutOfFuel -> "FUEL" in
      print_string (String.concat ";" (List.map field_of_str cr) ^ "#" ^ o_s ^ "\n")
    | raw -> match List.map str_of_field raw with
    | cwd :: dst :: names ->
      let (ops, o) = extractall cwd dst names in
      let ops_s = String.concat ";" (List.map (function Makedirs p -> "M " ^ field_of_str p | OpenWrite p -> "W " ^ field_of_str p) ops) in
      let o_s = match o with Done -> "DONE" | BadDest -> "BADDEST" | Rejected t -> "REJ " ^ field_of_str t in
      print_string (ops_s ^ "#" ^ o_s ^ "\n")
    | _ -> print_string "ERR\n"
  done with End_of_file -> ()
